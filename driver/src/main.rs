//! gxmir: a rustc_private driver that dumps, per workspace crate, the type-checked program as
//! JSON facts (MIR bodies with resolved callees, evaluated constants, field names, macro
//! provenance of every statement, trait-impl tables, named constants).  It is injected with
//! RUSTC_WORKSPACE_WRAPPER under `cargo +nightly check`, so it sees the real build's cfgs and
//! features.  All property rules are evaluated over these facts by /verif/gx (python).
#![feature(rustc_private)]
#![allow(clippy::all)]

extern crate rustc_abi;
extern crate rustc_driver;
extern crate rustc_hir;
extern crate rustc_interface;
extern crate rustc_middle;
extern crate rustc_span;

use rustc_driver::{Callbacks, Compilation};
use rustc_hir::def::DefKind;
use rustc_hir::def_id::{DefId, LOCAL_CRATE};
use rustc_middle::ty::TypeVisitableExt;
use rustc_middle::mir::*;
use rustc_middle::ty::print::{with_no_trimmed_paths, with_no_visible_paths, with_resolve_crate_name};
use rustc_middle::ty::{self, Instance, Ty, TyCtxt, TypingEnv};
use rustc_span::{ExpnKind, Span};
use std::fmt::Write as _;

struct Cb;

impl Callbacks for Cb {
    fn after_analysis<'tcx>(&mut self, _c: &rustc_interface::interface::Compiler, tcx: TyCtxt<'tcx>) -> Compilation {
        let out_dir = match std::env::var("GXMIR_OUT") {
            Ok(d) => d,
            Err(_) => return Compilation::Continue,
        };
        let krate = tcx.crate_name(LOCAL_CRATE).to_string();
        if krate.starts_with("build_script_") {
            return Compilation::Continue;
        }
        let s = with_resolve_crate_name!(with_no_visible_paths!(with_no_trimmed_paths!(dump(tcx, &krate))));
        let kind = match tcx.crate_types().first() {
            Some(k) => format!("{:?}", k).to_lowercase(),
            None => "none".to_string(),
        };
        let kind = if kind == "executable" { "bin".to_string() } else { "lib".to_string() + if kind == "procmacro" { "pm" } else { "" } };
        let id = format!("{:x}", tcx.stable_crate_id(LOCAL_CRATE).as_u64());
        let fname = format!("{}/{}.{}.{}.json", out_dir, krate, kind, id);
        let tmp = format!("{}.tmp{}", fname, std::process::id());
        std::fs::write(&tmp, s).expect("write facts");
        std::fs::rename(&tmp, &fname).expect("rename facts");
        Compilation::Continue
    }
}

fn js(s: &str) -> String {
    let mut o = String::with_capacity(s.len() + 2);
    o.push('"');
    for c in s.chars() {
        match c {
            '"' => o.push_str("\\\""),
            '\\' => o.push_str("\\\\"),
            '\n' => o.push_str("\\n"),
            '\r' => o.push_str("\\r"),
            '\t' => o.push_str("\\t"),
            c if (c as u32) < 0x20 => {
                let _ = write!(o, "\\u{:04x}", c as u32);
            }
            c => o.push(c),
        }
    }
    o.push('"');
    o
}

fn hex(b: &[u8]) -> String {
    let mut o = String::with_capacity(b.len() * 2);
    for x in b {
        let _ = write!(o, "{:02x}", x);
    }
    o
}

struct Cx<'a, 'tcx> {
    tcx: TyCtxt<'tcx>,
    body: &'a Body<'tcx>,
    env: TypingEnv<'tcx>,
}

fn path(tcx: TyCtxt<'_>, d: DefId) -> String {
    tcx.def_path_str(d)
}

fn span_info(tcx: TyCtxt<'_>, sp: Span) -> (u32, String) {
    // line of the outermost call site; macro / desugaring backtrace names
    let cs = sp.source_callsite();
    let line = tcx.sess.source_map().lookup_char_pos(cs.lo()).line as u32;
    let mut names: Vec<String> = Vec::new();
    if sp.from_expansion() {
        for e in sp.macro_backtrace() {
            match e.kind {
                ExpnKind::Macro(_, name) => names.push(name.to_string()),
                ExpnKind::Desugaring(k) => names.push(format!("d:{:?}", k)),
                ExpnKind::AstPass(k) => names.push(format!("ast:{:?}", k)),
                ExpnKind::Root => {}
            }
        }
        if names.is_empty() {
            names.push("?".into());
        }
    }
    let m = if names.is_empty() {
        String::new()
    } else {
        let v: Vec<String> = names.iter().map(|n| js(n)).collect();
        format!("[{}]", v.join(","))
    };
    (line, m)
}

impl<'a, 'tcx> Cx<'a, 'tcx> {
    fn ty(&self, t: Ty<'tcx>) -> String {
        js(&format!("{}", t))
    }

    fn place(&self, p: &Place<'tcx>) -> String {
        let tcx = self.tcx;
        let mut s = format!("[{}", p.local.as_u32());
        let mut pty = PlaceTy::from_ty(self.body.local_decls[p.local].ty);
        for elem in p.projection.iter() {
            s.push(',');
            match elem {
                ProjectionElem::Deref => s.push_str("\"*\""),
                ProjectionElem::Field(f, _) => {
                    let name = match pty.ty.kind() {
                        ty::Adt(adt, _) => {
                            let v = pty.variant_index.unwrap_or(rustc_abi::FIRST_VARIANT);
                            if v.as_usize() < adt.variants().len() && f.as_usize() < adt.variant(v).fields.len() {
                                adt.variant(v).fields[f].name.to_string()
                            } else {
                                f.as_u32().to_string()
                            }
                        }
                        _ => f.as_u32().to_string(),
                    };
                    s.push_str(&js(&format!(".{}", name)));
                }
                ProjectionElem::Index(l) => s.push_str(&js(&format!("[_{}]", l.as_u32()))),
                ProjectionElem::ConstantIndex { offset, from_end, .. } => {
                    s.push_str(&js(&format!("[{}{}]", if from_end { "-" } else { "" }, offset)))
                }
                ProjectionElem::Subslice { from, to, from_end } => {
                    s.push_str(&js(&format!("[{}..{}{}]", from, if from_end { "-" } else { "" }, to)))
                }
                ProjectionElem::Downcast(name, v) => {
                    let n = match name {
                        Some(n) => n.to_string(),
                        None => v.as_u32().to_string(),
                    };
                    s.push_str(&js(&format!("as {}", n)));
                }
                _ => s.push_str("\"?\""),
            }
            pty = pty.projection_ty(tcx, elem);
        }
        s.push(']');
        s
    }

    fn constant(&self, c: &ConstOperand<'tcx>) -> String {
        let tcx = self.tcx;
        let cst = c.const_;
        let ty = cst.ty();
        let mut s = format!("{{\"ty\":{}", self.ty(ty));
        if let ty::FnDef(did, _) = ty.kind() {
            let _ = write!(s, ",\"fn\":{}", js(&path(tcx, *did)));
        }
        if let ty::Closure(did, _) = ty.kind() {
            let _ = write!(s, ",\"closure\":{}", js(&path(tcx, *did)));
        }
        if let Const::Unevaluated(uv, _) = cst {
            if let Some(p) = uv.promoted {
                let _ = write!(s, ",\"promoted\":{}", p.as_u32());
            } else {
                let _ = write!(s, ",\"def\":{}", js(&path(tcx, uv.def)));
            }
        }
        let is_scalar_ty = ty.is_integral() || ty.is_bool() || ty.is_char();
        if is_scalar_ty {
            if let Some(si) = cst.try_eval_scalar_int(tcx, self.env) {
                let size = si.size();
                let bits = si.to_bits(size);
                if ty.is_signed() {
                    let v = size.sign_extend(bits) as i128;
                    let _ = write!(s, ",\"v\":{}", v);
                } else {
                    let _ = write!(s, ",\"v\":{}", bits);
                }
            }
        } else if let Some(vn) = self.const_unit_variant(cst, ty) {
            let _ = write!(s, ",\"variant\":{}", js(&vn));
        } else if let Some(b) = self.const_bytes(cst, ty, c.span) {
            let _ = write!(s, ",\"bytes\":{}", js(&hex(b)));
        } else if let Some(v) = self.const_ref_scalar(cst, ty, c.span) {
            let _ = write!(s, ",\"refv\":{}", v);
        }
        s.push('}');
        s
    }

    /// constants of field-less enum type (`Ordering::SeqCst`, `Kind::Tree`): the variant name
    fn const_unit_variant(&self, cst: Const<'tcx>, ty: Ty<'tcx>) -> Option<String> {
        let tcx = self.tcx;
        let adt = match ty.kind() {
            ty::Adt(adt, _) if adt.is_enum() && adt.is_payloadfree() => *adt,
            _ => return None,
        };
        if let Const::Unevaluated(uv, _) = cst {
            if uv.args.iter().any(|a| a.has_param()) {
                return None;
            }
        }
        let si = cst.try_eval_scalar_int(tcx, self.env)?;
        let bits = si.to_bits(si.size());
        for (vi, d) in adt.discriminants(tcx) {
            // compare modulo the scalar's width (discriminants are stored truncated)
            let mask = if si.size().bits() >= 128 { u128::MAX } else { (1u128 << si.size().bits()) - 1 };
            if d.val & mask == bits {
                return Some(adt.variant(vi).name.to_string());
            }
        }
        None
    }

    fn const_bytes(&self, cst: Const<'tcx>, ty: Ty<'tcx>, sp: Span) -> Option<&'tcx [u8]> {
        let tcx = self.tcx;
        let inner = match ty.kind() {
            ty::Ref(_, inner, _) => *inner,
            _ => return None,
        };
        match inner.kind() {
            ty::Str => {}
            ty::Slice(e) if *e == tcx.types.u8 => {}
            ty::Array(e, _) if *e == tcx.types.u8 => {}
            _ => return None,
        }
        if let Const::Unevaluated(uv, _) = cst {
            if uv.args.iter().any(|a| a.has_param()) {
                return None;
            }
        }
        let val = cst.eval(tcx, self.env, sp).ok()?;
        bytes_of(tcx, val, inner)
    }

    /// `&0u8`, `&b'\\n'`, `&1usize`: promoted references to integer scalars
    fn const_ref_scalar(&self, cst: Const<'tcx>, ty: Ty<'tcx>, sp: Span) -> Option<i128> {
        use rustc_middle::mir::interpret::{GlobalAlloc, Scalar};
        let tcx = self.tcx;
        let inner = match ty.kind() {
            ty::Ref(_, inner, _) => *inner,
            _ => return None,
        };
        if !(inner.is_integral() || inner.is_char() || inner.is_bool()) {
            return None;
        }
        if let Const::Unevaluated(uv, _) = cst {
            if uv.args.iter().any(|a| a.has_param()) {
                return None;
            }
        }
        let val = cst.eval(tcx, self.env, sp).ok()?;
        let n = match inner.kind() {
            ty::Int(i) => i.bit_width().unwrap_or(64) / 8,
            ty::Uint(u) => u.bit_width().unwrap_or(64) / 8,
            ty::Char => 4,
            ty::Bool => 1,
            _ => return None,
        } as usize;
        if let ConstValue::Scalar(Scalar::Ptr(ptr, _)) = val {
            let (prov, off) = ptr.into_raw_parts();
            if let Some(GlobalAlloc::Memory(a)) = tcx.try_get_global_alloc(prov.alloc_id()) {
                let start = off.bytes() as usize;
                let a = a.inner();
                if start + n > a.len() {
                    return None;
                }
                let b = a.inspect_with_uninit_and_ptr_outside_interpreter(start..start + n);
                let mut buf = [0u8; 16];
                buf[..n].copy_from_slice(b);
                let mut v = u128::from_le_bytes(buf) as i128;
                if inner.is_signed() && n < 16 && (b[n - 1] & 0x80) != 0 {
                    v -= 1i128 << (8 * n);
                }
                return Some(v);
            }
        }
        None
    }

    fn dump_body(&self, out: &mut String) {
        let body = self.body;
        let cx = self;
        let _ = write!(out, ",\"argc\":{}", body.arg_count);
        // locals
        out.push_str(",\"locals\":[");
        for (i, d) in body.local_decls.iter().enumerate() {
            if i > 0 {
                out.push(',');
            }
            out.push_str(&cx.ty(d.ty));
        }
        out.push_str("],\"names\":{");
        let mut seen = std::collections::HashSet::new();
        let mut firstn = true;
        for v in body.var_debug_info.iter() {
            if let VarDebugInfoContents::Place(p) = &v.value {
                let n = v.name.to_string();
                let key = format!("{}@{}", n, p.local.as_u32());
                if !seen.insert(key) {
                    continue;
                }
                if !firstn {
                    out.push(',');
                }
                firstn = false;
                let nm = if p.projection.is_empty() {
                    format!("{}", p.local.as_u32())
                } else {
                    cx.place(p)
                };
                // key: local index or place json; value: source name. Several locals may share a name.
                let _ = write!(out, "{}:{}", js(&nm), js(&n));
            }
        }
        out.push_str("},\"blocks\":[");
        for (bi, bb) in body.basic_blocks.iter_enumerated() {
            if bi.as_u32() > 0 {
                out.push(',');
            }
            out.push_str("{\"s\":[");
            let mut f = true;
            for st in bb.statements.iter() {
                if let Some(s) = cx.stmt(st) {
                    if !f {
                        out.push(',');
                    }
                    f = false;
                    out.push_str(&s);
                }
            }
            out.push_str("],\"t\":");
            out.push_str(&cx.term(bb.terminator()));
            if bb.is_cleanup {
                out.push_str(",\"cu\":1");
            }
            out.push('}');
        }
        out.push_str("]");
    }

    fn operand(&self, op: &Operand<'tcx>) -> String {
        match op {
            Operand::Copy(p) => format!("{{\"p\":{}}}", self.place(p)),
            Operand::Move(p) => format!("{{\"p\":{},\"mv\":1}}", self.place(p)),
            Operand::Constant(c) => self.constant(c),
            _ => "{\"rt\":1}".to_string(),
        }
    }

    fn rvalue(&self, rv: &Rvalue<'tcx>) -> String {
        let tcx = self.tcx;
        match rv {
            Rvalue::Use(op, ..) => format!("[\"use\",{}]", self.operand(op)),
            Rvalue::Repeat(op, n) => format!("[\"repeat\",{},{}]", self.operand(op), js(&format!("{}", n))),
            Rvalue::Ref(_, bk, p) => {
                let m = match bk {
                    BorrowKind::Mut { .. } => "mut",
                    BorrowKind::Shared => "shr",
                    BorrowKind::Fake(_) => "fake",
                };
                format!("[\"ref\",\"{}\",{}]", m, self.place(p))
            }
            Rvalue::RawPtr(k, p) => format!("[\"rawptr\",{},{}]", js(&format!("{:?}", k)), self.place(p)),
            Rvalue::Cast(k, op, t) => {
                let ks = format!("{:?}", k);
                let ks = ks.split('(').next().unwrap_or("").to_string();
                format!("[\"cast\",{},{},{}]", js(&ks), self.operand(op), self.ty(*t))
            }
            Rvalue::BinaryOp(op, ab) => {
                format!("[\"bin\",\"{:?}\",{},{}]", op, self.operand(&ab.0), self.operand(&ab.1))
            }
            Rvalue::UnaryOp(op, a) => format!("[\"un\",\"{:?}\",{}]", op, self.operand(a)),
            Rvalue::Discriminant(p) => {
                let pty = p.ty(self.body, tcx).ty;
                let mut vs: Vec<String> = Vec::new();
                if let ty::Adt(adt, _) = pty.kind() {
                    if adt.is_enum() {
                        for (vi, d) in adt.discriminants(tcx) {
                            vs.push(format!("{}:{}", js(&d.val.to_string()), js(&adt.variant(vi).name.to_string())));
                        }
                    }
                }
                format!("[\"discr\",{},{{{}}},{}]", self.place(p), vs.join(","), self.ty(pty))
            }
            Rvalue::Aggregate(k, ops) => {
                let (kind, name, variant) = match &**k {
                    AggregateKind::Array(_) => ("array", String::new(), String::new()),
                    AggregateKind::Tuple => ("tuple", String::new(), String::new()),
                    AggregateKind::Adt(did, v, _, _, _) => {
                        let adt = tcx.adt_def(*did);
                        let vn = adt.variant(*v).name.to_string();
                        ("adt", path(tcx, *did), vn)
                    }
                    AggregateKind::Closure(did, _) => ("closure", path(tcx, *did), String::new()),
                    AggregateKind::Coroutine(did, _) => ("coroutine", path(tcx, *did), String::new()),
                    AggregateKind::CoroutineClosure(did, _) => ("coroutine_closure", path(tcx, *did), String::new()),
                    AggregateKind::RawPtr(..) => ("rawptr", String::new(), String::new()),
                };
                let mut fields: Vec<String> = Vec::new();
                if let AggregateKind::Adt(did, v, _, _, active) = &**k {
                    let adt = tcx.adt_def(*did);
                    let var = adt.variant(*v);
                    if let Some(a) = active {
                        fields.push(js(&var.fields[*a].name.to_string()));
                    } else {
                        for f in var.fields.iter() {
                            fields.push(js(&f.name.to_string()));
                        }
                    }
                }
                let o: Vec<String> = ops.iter().map(|o| self.operand(o)).collect();
                format!(
                    "[\"agg\",\"{}\",{},{},[{}],[{}]]",
                    kind,
                    js(&name),
                    js(&variant),
                    o.join(","),
                    fields.join(",")
                )
            }
            Rvalue::CopyForDeref(p) => format!("[\"use\",{{\"p\":{}}}]", self.place(p)),
            Rvalue::ThreadLocalRef(d) => format!("[\"tls\",{}]", js(&path(tcx, *d))),
            _ => "[\"other\"]".to_string(),
        }
    }

    fn callee(&self, func: &Operand<'tcx>) -> String {
        let tcx = self.tcx;
        if let Some((did, args)) = func.const_fn_def() {
            let orig = path(tcx, did);
            let mut s = format!("{{\"path\":{}", js(&orig));
            let argstr: Vec<String> = args.iter().map(|a| format!("{}", a)).collect();
            let _ = write!(s, ",\"targs\":{}", js(&argstr.join(", ")));
            let is_trait_item = tcx.trait_of_assoc(did).is_some();
            let mut resolved: Option<String> = None;
            let mut virt = false;
            if let Ok(Some(inst)) = Instance::try_resolve(tcx, self.env, did, args) {
                match inst.def {
                    ty::InstanceKind::Item(d) => resolved = Some(path(tcx, d)),
                    ty::InstanceKind::Virtual(..) => virt = true,
                    ty::InstanceKind::ClosureOnceShim { call_once, .. } => {
                        let _ = call_once;
                        // receiver closure: first type arg
                        if let Some(t) = args.types().next() {
                            if let ty::Closure(cd, _) = t.kind() {
                                resolved = Some(path(tcx, *cd));
                            }
                        }
                    }
                    ty::InstanceKind::Intrinsic(d) => resolved = Some(path(tcx, d)),
                    _ => {
                        resolved = Some(path(tcx, inst.def_id()));
                    }
                }
            }
            if is_trait_item {
                s.push_str(",\"trait\":1");
                // calling a closure / fn item through Fn* traits: record the closure def
                if let Some(t) = args.types().next() {
                    let t = t.peel_refs();
                    match t.kind() {
                        ty::Closure(cd, _) | ty::CoroutineClosure(cd, _) | ty::Coroutine(cd, _) => {
                            let _ = write!(s, ",\"recv_closure\":{}", js(&path(tcx, *cd)));
                        }
                        ty::FnDef(fd, _) => {
                            let _ = write!(s, ",\"recv_fn\":{}", js(&path(tcx, *fd)));
                        }
                        ty::Dynamic(..) => virt = true,
                        _ => {}
                    }
                    let _ = write!(s, ",\"self\":{}", self.ty(t));
                }
            }
            match resolved {
                Some(r) if r != orig => {
                    let _ = write!(s, ",\"res\":{}", js(&r));
                }
                Some(_) => {
                    if is_trait_item {
                        s.push_str(",\"res_self\":1");
                    }
                }
                None => {
                    if is_trait_item {
                        s.push_str(",\"unres\":1");
                    }
                }
            }
            if virt {
                s.push_str(",\"virt\":1");
            }
            s.push('}');
            s
        } else {
            format!("{{\"ind\":{}}}", self.operand(func))
        }
    }

    fn stmt(&self, st: &Statement<'tcx>) -> Option<String> {
        let (line, m) = span_info(self.tcx, st.source_info.span);
        let tail = if m.is_empty() { format!("{}", line) } else { format!("{},{}", line, m) };
        match &st.kind {
            StatementKind::Assign(b) => {
                let (p, rv) = &**b;
                Some(format!("[\"a\",{},{},{}]", self.place(p), self.rvalue(rv), tail))
            }
            StatementKind::SetDiscriminant { place, variant_index } => {
                Some(format!("[\"setd\",{},{},{}]", self.place(place), variant_index.as_u32(), tail))
            }
            StatementKind::Intrinsic(i) => match &**i {
                NonDivergingIntrinsic::Assume(op) => Some(format!("[\"assume\",{},{}]", self.operand(op), tail)),
                NonDivergingIntrinsic::CopyNonOverlapping(c) => Some(format!(
                    "[\"copy\",{},{},{},{}]",
                    self.operand(&c.src),
                    self.operand(&c.dst),
                    self.operand(&c.count),
                    tail
                )),
            },
            _ => None,
        }
    }

    fn term(&self, t: &Terminator<'tcx>) -> String {
        let (line, m) = span_info(self.tcx, t.source_info.span);
        let tail = if m.is_empty() { format!("{}", line) } else { format!("{},{}", line, m) };
        let bb = |b: &BasicBlock| b.as_u32().to_string();
        let obb = |b: &Option<BasicBlock>| match b {
            Some(b) => b.as_u32().to_string(),
            None => "null".to_string(),
        };
        let unw = |u: &UnwindAction| match u {
            UnwindAction::Cleanup(b) => b.as_u32().to_string(),
            _ => "null".to_string(),
        };
        match &t.kind {
            TerminatorKind::Goto { target } => format!("[\"goto\",{},{}]", bb(target), tail),
            TerminatorKind::SwitchInt { discr, targets } => {
                let arms: Vec<String> = targets.iter().map(|(v, t)| format!("[{},{}]", v, t.as_u32())).collect();
                let dty = discr.ty(self.body, self.tcx);
                format!(
                    "[\"switch\",{},[{}],{},{},{}]",
                    self.operand(discr),
                    arms.join(","),
                    targets.otherwise().as_u32(),
                    self.ty(dty),
                    tail
                )
            }
            TerminatorKind::Return => format!("[\"ret\",{}]", tail),
            TerminatorKind::Unreachable => format!("[\"unreachable\",{}]", tail),
            TerminatorKind::UnwindResume => format!("[\"resume\",{}]", tail),
            TerminatorKind::UnwindTerminate(_) => format!("[\"abort\",{}]", tail),
            TerminatorKind::Drop { place, target, unwind, .. } => {
                let pty = place.ty(self.body, self.tcx).ty;
                format!("[\"drop\",{},{},{},{},{}]", self.place(place), bb(target), unw(unwind), self.ty(pty), tail)
            }
            TerminatorKind::Call { func, args, destination, target, unwind, .. } => {
                let a: Vec<String> = args.iter().map(|x| self.operand(&x.node)).collect();
                format!(
                    "[\"call\",{},[{}],{},{},{},{}]",
                    self.callee(func),
                    a.join(","),
                    self.place(destination),
                    obb(target),
                    unw(unwind),
                    tail
                )
            }
            TerminatorKind::TailCall { func, args, .. } => {
                let a: Vec<String> = args.iter().map(|x| self.operand(&x.node)).collect();
                format!("[\"tailcall\",{},[{}],{}]", self.callee(func), a.join(","), tail)
            }
            TerminatorKind::Assert { cond, expected, msg, target, unwind } => {
                let k = match &**msg {
                    AssertKind::BoundsCheck { .. } => "bounds".to_string(),
                    AssertKind::Overflow(op, ..) => format!("overflow:{:?}", op),
                    AssertKind::OverflowNeg(_) => "overflow:Neg".to_string(),
                    AssertKind::DivisionByZero(_) => "divzero".to_string(),
                    AssertKind::RemainderByZero(_) => "remzero".to_string(),
                    _ => "other".to_string(),
                };
                let extra = match &**msg {
                    AssertKind::BoundsCheck { len, index } => {
                        format!(",{},{}", self.operand(len), self.operand(index))
                    }
                    _ => String::new(),
                };
                format!(
                    "[\"assert\",{},{},{},{},{},{}{}]",
                    self.operand(cond),
                    expected,
                    js(&k),
                    bb(target),
                    unw(unwind),
                    tail,
                    if extra.is_empty() { String::new() } else { format!(",[{}]", &extra[1..]) }
                )
            }
            TerminatorKind::Yield { resume, drop, .. } => format!("[\"yield\",{},{},{}]", bb(resume), obb(drop), tail),
            TerminatorKind::CoroutineDrop => format!("[\"cdrop\",{}]", tail),
            TerminatorKind::FalseEdge { real_target, .. } => format!("[\"goto\",{},{}]", bb(real_target), tail),
            TerminatorKind::FalseUnwind { real_target, .. } => format!("[\"goto\",{},{}]", bb(real_target), tail),
            TerminatorKind::InlineAsm { targets, .. } => {
                let t: Vec<String> = targets.iter().map(|b| b.as_u32().to_string()).collect();
                format!("[\"asm\",[{}],{}]", t.join(","), tail)
            }
        }
    }
}

fn bytes_of<'tcx>(tcx: TyCtxt<'tcx>, val: ConstValue, inner: Ty<'tcx>) -> Option<&'tcx [u8]> {
    use rustc_middle::mir::interpret::{GlobalAlloc, Scalar};
    match val {
        ConstValue::Slice { .. } => val.try_get_slice_bytes_for_diagnostics(tcx),
        ConstValue::Indirect { alloc_id, offset } => {
            // a wide pointer (&[u8] / &str) or thin pointer (&[u8; N]) stored in memory
            let a = match tcx.try_get_global_alloc(alloc_id)? {
                GlobalAlloc::Memory(a) => a.inner(),
                _ => return None,
            };
            let off = offset.bytes() as usize;
            if off + 8 > a.len() {
                return None;
            }
            let prov = a.provenance().get_ptr(offset)?;
            let raw = a.inspect_with_uninit_and_ptr_outside_interpreter(off..off + 8);
            let mut b8 = [0u8; 8];
            b8.copy_from_slice(raw);
            let poff = u64::from_le_bytes(b8) as usize;
            let n = match inner.kind() {
                ty::Array(_, len) => len.try_to_target_usize(tcx)? as usize,
                _ => {
                    if off + 16 > a.len() {
                        return None;
                    }
                    let raw = a.inspect_with_uninit_and_ptr_outside_interpreter(off + 8..off + 16);
                    b8.copy_from_slice(raw);
                    u64::from_le_bytes(b8) as usize
                }
            };
            match tcx.try_get_global_alloc(prov.alloc_id())? {
                GlobalAlloc::Memory(t) => {
                    let t = t.inner();
                    if poff + n > t.len() {
                        return None;
                    }
                    Some(t.inspect_with_uninit_and_ptr_outside_interpreter(poff..poff + n))
                }
                _ => None,
            }
        }
        ConstValue::Scalar(Scalar::Ptr(ptr, _)) => {
            let n = match inner.kind() {
                ty::Array(_, len) => len.try_to_target_usize(tcx)? as usize,
                _ => return None,
            };
            let (prov, off) = ptr.into_raw_parts();
            let aid = prov.alloc_id();
            match tcx.try_get_global_alloc(aid)? {
                GlobalAlloc::Memory(a) => {
                    let start = off.bytes() as usize;
                    let a = a.inner();
                    if start + n > a.len() {
                        return None;
                    }
                    Some(a.inspect_with_uninit_and_ptr_outside_interpreter(start..start + n))
                }
                _ => None,
            }
        }
        _ => None,
    }
}

fn dump<'tcx>(tcx: TyCtxt<'tcx>, krate: &str) -> String {
    let sm = tcx.sess.source_map();
    let mut out = String::new();
    let _ = write!(out, "{{\"crate\":{},\"fns\":[", js(krate));
    let mut first = true;
    let mut consts: Vec<String> = Vec::new();
    let mut nbodies = 0usize;
    for ldid in tcx.hir_body_owners() {
        let did = ldid.to_def_id();
        let kind = tcx.def_kind(did);
        match kind {
            DefKind::Fn | DefKind::AssocFn | DefKind::Closure => {}
            DefKind::Const { .. } | DefKind::AssocConst { .. } => {
                if let Some(c) = dump_const(tcx, did) {
                    consts.push(c);
                }
                continue;
            }
            _ => continue,
        }
        // coroutine bodies (async fns) have no analysable post-transform shape: skip their inner body but keep the outer fn
        if tcx.is_coroutine(did) {
            continue;
        }
        let body: &Body<'tcx> = tcx.optimized_mir(did);
        nbodies += 1;
        let env = TypingEnv::post_analysis(tcx, did);
        let cx = Cx { tcx, body, env };
        if !first {
            out.push(',');
        }
        first = false;
        let sp = tcx.def_span(did);
        let loc = sm.lookup_char_pos(sp.lo());
        let file = format!("{}", loc.file.name.prefer_local_unconditionally());
        let _ = write!(out, "\n{{\"name\":{},\"file\":{},\"line\":{}", js(&path(tcx, did)), js(&file), loc.line);
        let k = match kind {
            DefKind::Fn => "fn",
            DefKind::AssocFn => "assoc",
            _ => "closure",
        };
        let _ = write!(out, ",\"kind\":\"{}\"", k);
        if sp.from_expansion() {
            out.push_str(",\"expn\":1");
        }
        if matches!(kind, DefKind::Fn | DefKind::AssocFn) {
            if tcx.visibility(did).is_public() {
                out.push_str(",\"pub\":1");
            }
        }
        if kind == DefKind::Closure {
            let parent = tcx.typeck_root_def_id(did);
            let _ = write!(out, ",\"root\":{}", js(&path(tcx, parent)));
        }
        if kind == DefKind::AssocFn {
            if let Some(ai) = tcx.opt_associated_item(did) {
                if let Some(t) = ai.trait_item_def_id() {
                    let _ = write!(out, ",\"trait_item\":{}", js(&path(tcx, t)));
                }
                if let ty::AssocContainer::Trait = ai.container {
                    out.push_str(",\"in_trait\":1");
                }
            }
            let parent = tcx.parent(did);
            if matches!(tcx.def_kind(parent), DefKind::Impl { .. }) {
                let st = tcx.type_of(parent).instantiate_identity().skip_norm_wip();
                let _ = write!(out, ",\"self_ty\":{}", js(&format!("{}", st)));
            }
        }
        cx.dump_body(&mut out);
        out.push('}');
        // promoted constants of this function (tables such as `&[(A, X), (B, Y)]` live here)
        for (pi, pb) in tcx.promoted_mir(did).iter_enumerated() {
            let pcx = Cx { tcx, body: pb, env };
            let _ = write!(
                out,
                ",\n{{\"name\":{},\"file\":{},\"line\":{},\"kind\":\"promoted\",\"root\":{}",
                js(&format!("{}::{{promoted#{}}}", path(tcx, did), pi.as_u32())),
                js(&file),
                loc.line,
                js(&path(tcx, did))
            );
            pcx.dump_body(&mut out);
            out.push('}');
        }
    }
    out.push_str("\n],\"consts\":[");
    out.push_str(&consts.join(",\n"));
    out.push_str("],\"impls\":[");
    // trait impl table
    let mut firsti = true;
    for (trait_did, impls) in tcx.all_local_trait_impls(()).iter() {
        for imp in impls.iter() {
            let idid = imp.to_def_id();
            let st = tcx.type_of(idid).instantiate_identity().skip_norm_wip();
            if !firsti {
                out.push(',');
            }
            firsti = false;
            let _ = write!(out, "\n{{\"trait\":{},\"self\":{},\"methods\":{{", js(&path(tcx, *trait_did)), js(&format!("{}", st)));
            let mut fm = true;
            for ai in tcx.associated_items(idid).in_definition_order() {
                if let ty::AssocKind::Fn { .. } = ai.kind {
                    if let Some(t) = ai.trait_item_def_id() {
                        if !fm {
                            out.push(',');
                        }
                        fm = false;
                        let _ = write!(out, "{}:{}", js(&path(tcx, t)), js(&path(tcx, ai.def_id)));
                    }
                }
            }
            out.push_str("}}");
        }
    }
    let _ = write!(out, "],\"nbodies\":{}}}", nbodies);
    out
}

fn dump_const<'tcx>(tcx: TyCtxt<'tcx>, did: DefId) -> Option<String> {
    if tcx.generics_of(did).requires_monomorphization(tcx) {
        return None;
    }
    let ty = tcx.type_of(did).instantiate_identity().skip_norm_wip();
    let name = path(tcx, did);
    let sp = tcx.def_span(did);
    let loc = tcx.sess.source_map().lookup_char_pos(sp.lo());
    let file = format!("{}", loc.file.name.prefer_local_unconditionally());
    let head = format!("{{\"name\":{},\"ty\":{},\"file\":{},\"line\":{}", js(&name), js(&format!("{}", ty)), js(&file), loc.line);
    let val = tcx.const_eval_poly(did).ok()?;
    if ty.is_integral() || ty.is_bool() || ty.is_char() {
        let si = val.try_to_scalar_int()?;
        let size = si.size();
        let bits = si.to_bits(size);
        if ty.is_signed() {
            return Some(format!("{},\"v\":{}}}", head, size.sign_extend(bits) as i128));
        }
        return Some(format!("{},\"v\":{}}}", head, bits));
    }
    if let ty::Ref(_, inner, _) = ty.kind() {
        let ok = match inner.kind() {
            ty::Str => true,
            ty::Slice(e) | ty::Array(e, _) => *e == tcx.types.u8,
            _ => false,
        };
        if ok {
            let b = bytes_of(tcx, val, *inner)?;
            return Some(format!("{},\"bytes\":{}}}", head, js(&hex(b))));
        }
    }
    if let ty::Adt(..) = ty.kind() {
        // newtype-of-integer constants (bitflags values and the like) evaluate to a scalar: record their bits
        if let ConstValue::Scalar(sc) = val {
            if let Ok(si) = sc.try_to_scalar_int() {
                let bits = si.to_bits(si.size());
                return Some(format!("{},\"v\":{},\"adt\":true}}", head, bits));
            }
        }
    }
    if let ty::Array(e, len) = ty.kind() {
        if *e == tcx.types.u8 {
            // by-value byte array constant (e.g. chunk ids `[u8; 4]`)
            use rustc_middle::mir::interpret::GlobalAlloc;
            let n = len.try_to_target_usize(tcx)? as usize;
            match val {
                ConstValue::Indirect { alloc_id, offset } => {
                    if let Some(GlobalAlloc::Memory(a)) = tcx.try_get_global_alloc(alloc_id) {
                        let s = offset.bytes() as usize;
                        let a = a.inner();
                        if s + n <= a.len() {
                            let b = a.inspect_with_uninit_and_ptr_outside_interpreter(s..s + n);
                            return Some(format!("{},\"bytes\":{}}}", head, js(&hex(b))));
                        }
                    }
                }
                ConstValue::Scalar(sc) => {
                    let si = sc.try_to_scalar_int().ok()?;
                    let bits = si.to_bits(si.size());
                    let b = &bits.to_le_bytes()[..n];
                    return Some(format!("{},\"bytes\":{}}}", head, js(&hex(b))));
                }
                _ => {}
            }
        }
    }
    None
}

fn main() {
    let mut args: Vec<String> = std::env::args().collect();
    // RUSTC_WORKSPACE_WRAPPER: argv[1] is the path of the real rustc
    if args.len() > 1 && (args[1].ends_with("rustc") || args[1].contains("/rustc")) {
        args.remove(1);
    }
    let mut cb = Cb;
    rustc_driver::run_compiler(&args, &mut cb);
}
