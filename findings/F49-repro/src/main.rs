use std::{path::Path, process::Command};
use gix_ref::{file, transaction::{Change, LogChange, PreviousValue, RefEdit, RefLog}, Target};
fn git(dir: &Path, args: &[&str]) -> String {
    let out = Command::new("git").current_dir(dir).args(args)
        .env("GIT_AUTHOR_NAME", "a").env("GIT_AUTHOR_EMAIL", "a@b").env("GIT_COMMITTER_NAME", "a").env("GIT_COMMITTER_EMAIL", "a@b")
        .env("GIT_CONFIG_NOSYSTEM", "1").env("GIT_CONFIG_GLOBAL", "/dev/null").output().unwrap();
    format!("{}{}", String::from_utf8_lossy(&out.stdout).trim(), String::from_utf8_lossy(&out.stderr).trim())
}
fn main() {
    let root = std::env::temp_dir().join(format!("c16r-{}", std::process::id()));
    let _ = std::fs::remove_dir_all(&root);
    std::fs::create_dir_all(&root).unwrap();
    git(&root, &["init", "-q", "-b", "main", "."]);
    git(&root, &["commit", "-q", "--allow-empty", "-m", "A"]);
    let id = gix_hash::ObjectId::from_hex(git(&root, &["rev-parse", "HEAD"]).as_bytes()).unwrap();
    git(&root, &["checkout", "-q", "--detach"]);
    let store = file::Store::at(root.join(".git"), gix_ref::store::init::Options { write_reflog: gix_ref::store::WriteReflog::Disable, ..Default::default() });
    // delete the only branch, then create and delete a tag - all through gitoxide
    let edits = [
        ("refs/heads/main", Change::Delete { expected: PreviousValue::MustExist, log: RefLog::AndReference }),
        ("refs/tags/t", Change::Update { log: LogChange::default(), expected: PreviousValue::MustNotExist, new: Target::Object(id) }),
        ("refs/tags/t", Change::Delete { expected: PreviousValue::MustExist, log: RefLog::AndReference }),
    ];
    for (name, change) in edits {
        store.transaction().prepare([RefEdit { change, name: name.try_into().unwrap(), deref: false }], gix_lock::acquire::Fail::Immediately, gix_lock::acquire::Fail::Immediately)
            .unwrap().commit(None).unwrap();
    }
    let head = git(&root, &["rev-parse", "HEAD"]);
    println!(".git/refs exists: {}; git rev-parse HEAD -> {head:?}", root.join(".git/refs").is_dir());
    let ok = head == id.to_string();
    std::fs::remove_dir_all(&root).ok();
    std::process::exit(if ok { 0 } else { 1 });
}
