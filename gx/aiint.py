"""AI-int — abstract interpretation of a pure integer function over the partition of one argument
induced by the constants it is compared with.  Yields [(lo, hi, value)] (piecewise-constant result)."""

_CMP = {"Lt", "Le", "Gt", "Ge", "Eq", "Ne"}


class Unsupported(Exception):
    pass


def piecewise(fn, is_x_place, lo, hi, max_paths=4096):
    """is_x_place(place) -> True when the place holds the abstracted argument x.
    Explores every CFG path from entry, splitting [lo,hi] at comparisons of x with constants,
    tracking integer constants in locals.  Returns sorted list of (lo, hi, return value)."""
    out = []
    # state: (block, x_lo, x_hi, env) ; env: local -> int | ('x',) | ('cmp', op, c, swapped) | ('pair', val)
    work = [(0, lo, hi, {})]
    n = 0
    while work:
        n += 1
        if n > max_paths * 64:
            raise Unsupported("path explosion")
        b, xl, xh, env = work.pop()
        env = dict(env)

        def val(op):
            if "p" in op:
                p = op["p"]
                if is_x_place(p):
                    return ("x",)
                if len(p) == 1:
                    return env.get(p[0])
                if len(p) == 2 and p[1] in (".0", ".1") and isinstance(env.get(p[0]), tuple) and env[p[0]][0] == "pair":
                    return env[p[0]][1] if p[1] == ".0" else 0
                return None
            return op.get("v")

        for s in fn.stmts(b):
            if s[0] != "a":
                continue
            pl, rv = s[1], s[2]
            if len(pl) != 1:
                continue
            k = rv[0]
            v = None
            if k == "use":
                v = val(rv[1])
            elif k == "cast":
                v = val(rv[2])
            elif k == "bin":
                a, c = val(rv[2]), val(rv[3])
                op = rv[1]
                if op in _CMP:
                    if a == ("x",) and isinstance(c, int):
                        v = ("cmp", op, c)
                    elif c == ("x",) and isinstance(a, int):
                        v = ("cmp", {"Lt": "Gt", "Le": "Ge", "Gt": "Lt", "Ge": "Le"}.get(op, op), a)
                    elif isinstance(a, int) and isinstance(c, int):
                        v = int({"Lt": a < c, "Le": a <= c, "Gt": a > c, "Ge": a >= c, "Eq": a == c, "Ne": a != c}[op])
                elif isinstance(a, int) and isinstance(c, int):
                    base = op.replace("WithOverflow", "").replace("Unchecked", "")
                    r = {"Add": a + c, "Sub": a - c, "Mul": a * c}.get(base)
                    if r is not None:
                        v = ("pair", r) if op.endswith("WithOverflow") else r
            env[pl[0]] = v
        t = fn.term(b)
        k = t[0]
        if k == "goto":
            work.append((t[1], xl, xh, env))
        elif k == "assert":
            work.append((t[4], xl, xh, env))
        elif k == "ret":
            r = env.get(0)
            if not isinstance(r, int):
                raise Unsupported("non-constant return on path x in [%s,%s]" % (xl, xh))
            out.append((xl, xh, r))
        elif k == "switch":
            d = val(t[1])
            if isinstance(d, int):
                tgt = next((x for vv, x in t[2] if vv == d), t[3])
                work.append((tgt, xl, xh, env))
            elif isinstance(d, tuple) and d[0] == "cmp":
                op, c = d[1], d[2]
                # true set / false set as interval lists
                if op == "Ge":
                    tr, fa = [(max(xl, c), xh)], [(xl, min(xh, c - 1))]
                elif op == "Gt":
                    tr, fa = [(max(xl, c + 1), xh)], [(xl, min(xh, c))]
                elif op == "Le":
                    tr, fa = [(xl, min(xh, c))], [(max(xl, c + 1), xh)]
                elif op == "Lt":
                    tr, fa = [(xl, min(xh, c - 1))], [(max(xl, c), xh)]
                elif op == "Eq":
                    tr, fa = [(max(xl, c), min(xh, c))], [(xl, min(xh, c - 1)), (max(xl, c + 1), xh)]
                else:
                    fa, tr = [(max(xl, c), min(xh, c))], [(xl, min(xh, c - 1)), (max(xl, c + 1), xh)]
                zero = [x for vv, x in t[2] if vv == 0]
                f_tgt = zero[0] if zero else t[3]
                t_tgt = t[3] if zero else t[2][0][1]
                for (a_, b_) in tr:
                    if a_ <= b_:
                        work.append((t_tgt, a_, b_, env))
                for (a_, b_) in fa:
                    if a_ <= b_:
                        work.append((f_tgt, a_, b_, env))
            else:
                raise Unsupported("switch on unknown value in bb%d" % b)
        elif k == "call":
            raise Unsupported("call in bb%d" % b)
        else:
            raise Unsupported("terminator %s" % k)
    out.sort()
    return out


def decimal_len(n):
    return len(str(n))
