"""AI-int — abstract interpretation of a pure integer function over the partition of one argument x induced by the constants
it (or |x|) is compared with.  Explores all paths (loops are unrolled while the tracked values stay concrete), keeps the set of
x that reaches each return and the concrete integer returned.  Yields [(lo, hi, value)] (piecewise-constant result)."""
import re

_CMP = {"Lt", "Le", "Gt", "Ge", "Eq", "Ne"}
_FLIP = {"Lt": "Gt", "Le": "Ge", "Gt": "Lt", "Ge": "Le", "Eq": "Eq", "Ne": "Ne"}


class Unsupported(Exception):
    pass


def _split(dom, who, op, c):
    """(true part, false part) of the interval list `dom` under `who op c` (who in 'x','abs')"""
    def sat_x(lo, hi):
        if op == "Ge": return [(max(lo, c), hi)]
        if op == "Gt": return [(max(lo, c + 1), hi)]
        if op == "Le": return [(lo, min(hi, c))]
        if op == "Lt": return [(lo, min(hi, c - 1))]
        if op == "Eq": return [(max(lo, c), min(hi, c))]
        return [(lo, min(hi, c - 1)), (max(lo, c + 1), hi)]
    tr, fa = [], []
    inv = {"Ge": "Lt", "Gt": "Le", "Le": "Gt", "Lt": "Ge", "Eq": "Ne", "Ne": "Eq"}[op]
    if isinstance(who, tuple) and who[0] == "and":
        # (x & mask) op c: the true set is periodic in x; enumerate it (domains of at most 2^20 values: bytes, u16 modes, code points)
        mask = who[1]
        if sum(hi - lo + 1 for lo, hi in dom) > (1 << 20):
            raise Unsupported("masked comparison over a domain that is too large")
        test = {"Lt": lambda v: v < c, "Le": lambda v: v <= c, "Gt": lambda v: v > c, "Ge": lambda v: v >= c, "Eq": lambda v: v == c, "Ne": lambda v: v != c}[op]
        for lo, hi in dom:
            run = None
            for x in range(lo, hi + 1):
                if test(x & mask):
                    run = (run[0], x) if run else (x, x)
                elif run:
                    tr.append(run); run = None
            if run:
                tr.append(run)
        return tr, _minus(dom, tr)
    for lo, hi in dom:
        if who == "x":
            tr += sat_x(lo, hi)
            saved = op
            parts = _split([(lo, hi)], "x", inv, c)[0] if False else None
        else:
            # |x| op c  <=>  over x>=0: x op c ; over x<0: -x op c  <=>  x op' -c
            pos = (max(lo, 0), hi)
            neg = (lo, min(hi, -1))
            if pos[0] <= pos[1]:
                tr += [iv for iv in _split([pos], "x", op, c)[0]]
            if neg[0] <= neg[1]:
                tr += [iv for iv in _split([neg], "x", _FLIP[op] if op not in ("Eq", "Ne") else op, -c)[0]]
    tr = [(a, b) for a, b in tr if a <= b]
    # false part = dom minus tr
    fa = _minus(dom, tr)
    return tr, fa


def _minus(dom, sub):
    out = []
    for lo, hi in dom:
        cur = [(lo, hi)]
        for a, b in sub:
            nxt = []
            for x, y in cur:
                if b < x or a > y:
                    nxt.append((x, y))
                else:
                    if x < a: nxt.append((x, a - 1))
                    if b < y: nxt.append((b + 1, y))
            cur = nxt
        out += cur
    return out


def piecewise(fn, is_x_place, lo, hi, max_steps=200000, resolve=None, _depth=0, start=0, stop=None, observe=0, env0=None, models=None, fork_unknown=False):
    """models: {regex: [(lo, hi), ...]} - std predicates on x (by value or by reference) and their true-sets.
    start/stop/observe: evaluate only the region from block `start` until a block in `stop` is entered and report the value of local `observe`
    there (None if never assigned in the region).  fork_unknown: a switch on a value that does not depend on x is followed on all edges."""
    out = []
    sub_cache = {}
    stop = set(stop or ())
    work = [(start, 0, [(lo, hi)], dict(env0 or {}))]   # block, stmt index, domain, env
    steps = 0
    while work:
        steps += 1
        if steps > max_steps:
            raise Unsupported("path explosion")
        b, si0, dom, env = work.pop()
        env = dict(env)
        if b in stop and si0 == 0 and not (b == start and steps == 1):
            r = b if observe == "stop" else env.get(observe)
            for a_, b_ in dom:
                out.append((a_, b_, r if isinstance(r, int) else None))
            continue

        def val(op):
            if "p" in op:
                p = op["p"]
                if is_x_place(p):
                    return ("x",)
                if len(p) == 1:
                    return env.get(p[0])
                if len(p) == 2 and p[1] == "*":
                    v0 = env.get(p[0])
                    if v0 == ("xref",):
                        return ("x",)
                    if isinstance(v0, tuple) and v0 and v0[0] in ("range", "xref2"):
                        return v0 if v0[0] == "range" else ("xref",)
                    return None
                if len(p) == 2 and p[1] in (".0", ".1") and isinstance(env.get(p[0]), tuple) and env[p[0]][0] == "pair":
                    return env[p[0]][1] if p[1] == ".0" else 0
                return None
            return op.get("v")

        def fork_on(cmpv, cont):
            """concretise a comparison value: continue twice with 1 / 0"""
            tr, fa = _split(dom, cmpv[1], cmpv[2], cmpv[3])
            for part, v in ((tr, 1), (fa, 0)):
                if part:
                    cont(part, v)

        stmts = fn.stmts(b)
        forked = False
        for si in range(si0, len(stmts)):
            s = stmts[si]
            if s[0] != "a":
                continue
            pl, rv = s[1], s[2]
            if len(pl) != 1:
                continue
            k = rv[0]
            v = None
            if k == "use":
                v = val(rv[1])
            elif k == "cast":
                v = val(rv[2])
                if isinstance(v, tuple) and v[0] == "cmp":
                    def cont(part, bit, pl=pl, si=si):
                        e2 = dict(env); e2[pl[0]] = bit
                        work.append((b, si + 1, part, e2))
                    fork_on(v, cont)
                    forked = True
                    break
            elif k == "ref":
                pv = val({"p": rv[2]})
                if pv == ("x",):
                    v = ("xref",)
                elif pv == ("xref",):
                    v = ("xref2",)
                elif isinstance(pv, tuple) and pv and pv[0] == "range":
                    v = pv
            elif k == "agg" and rv[1] == "adt" and not rv[4]:
                v = ("variant", rv[3])
            elif k == "discr":
                ev_ = env.get(rv[1][0]) if len(rv[1]) == 1 else None
                if isinstance(ev_, tuple) and ev_ and ev_[0] == "variant":
                    v = next((int(d_) for d_, n_ in rv[2].items() if n_ == ev_[1]), None)
            elif k == "un" and rv[1] == "Not":
                a = val(rv[2])
                if isinstance(a, int):
                    v = 1 - a if a in (0, 1) else None
                elif isinstance(a, tuple) and a[0] == "cmp":
                    v = ("cmp", a[1], {"Ge": "Lt", "Gt": "Le", "Le": "Gt", "Lt": "Ge", "Eq": "Ne", "Ne": "Eq"}[a[2]], a[3])
            elif k == "bin":
                a, c = val(rv[2]), val(rv[3])
                op = rv[1]
                if op in _CMP:
                    if isinstance(a, tuple) and a[0] in ("x", "abs") and isinstance(c, int):
                        v = ("cmp", a[0], op, c)
                    elif isinstance(c, tuple) and c[0] in ("x", "abs") and isinstance(a, int):
                        v = ("cmp", c[0], _FLIP[op], a)
                    elif isinstance(a, tuple) and a[0] == "and" and isinstance(c, int):
                        v = ("cmp", a, op, c)
                    elif isinstance(c, tuple) and c[0] == "and" and isinstance(a, int):
                        v = ("cmp", c, _FLIP[op], a)
                    elif isinstance(a, int) and isinstance(c, int):
                        v = int({"Lt": a < c, "Le": a <= c, "Gt": a > c, "Ge": a >= c, "Eq": a == c, "Ne": a != c}[op])
                elif op == "BitAnd" and ((a == ("x",) and isinstance(c, int)) or (c == ("x",) and isinstance(a, int))):
                    v = ("and", c if isinstance(c, int) else a)
                elif op == "BitAnd" and isinstance(a, int) and isinstance(c, int):
                    v = a & c
                elif isinstance(a, int) and isinstance(c, int):
                    base = op.replace("WithOverflow", "").replace("Unchecked", "")
                    r = {"Add": a + c, "Sub": a - c, "Mul": a * c}.get(base)
                    if r is not None:
                        v = ("pair", r) if op.endswith("WithOverflow") else r
            if v is None and env0 and pl[0] in env0:
                v = env0[pl[0]]
            env[pl[0]] = v
        if forked:
            continue
        t = fn.term(b)
        k = t[0]
        if k == "goto":
            work.append((t[1], 0, dom, env))
        elif k == "assert":
            work.append((t[4], 0, dom, env))
        elif k == "ret":
            r = env.get(0)
            if isinstance(r, tuple) and r and r[0] == "cmp":
                tr, fa = _split(dom, r[1], r[2], r[3])
                for part, bit in ((tr, 1), (fa, 0)):
                    for a_, b_ in part:
                        out.append((a_, b_, bit))
                continue
            if not isinstance(r, int) and not (isinstance(r, tuple) and r and r[0] == "variant"):
                raise Unsupported("non-constant return for x in %s" % (dom[:2],))
            for a_, b_ in dom:
                out.append((a_, b_, r))
        elif k == "switch":
            d = val(t[1])
            if isinstance(d, int):
                tgt = next((x for vv, x in t[2] if vv == d), t[3])
                work.append((tgt, 0, dom, env))
            elif isinstance(d, tuple) and d[0] == "cmp":
                tr, fa = _split(dom, d[1], d[2], d[3])
                zero = [x for vv, x in t[2] if vv == 0]
                f_tgt = zero[0] if zero else t[3]
                t_tgt = t[3] if zero else t[2][0][1]
                if tr:
                    work.append((t_tgt, 0, tr, env))
                if fa:
                    work.append((f_tgt, 0, fa, env))
            elif isinstance(d, tuple) and d[0] == "x":
                rest = dom
                for vv, x in t[2]:
                    tr, rest2 = _split(rest, "x", "Eq", vv)
                    if tr:
                        work.append((x, 0, tr, env))
                    rest = rest2
                if rest:
                    work.append((t[3], 0, rest, env))
            elif fork_unknown and d is None:
                for tgt_ in sorted({x for vv, x in t[2]} | {t[3]}):
                    work.append((tgt_, 0, dom, env))
            else:
                raise Unsupported("switch on unknown value in bb%d" % b)
        elif k == "call":
            nm = t[1].get("res") or t[1].get("path", "")
            args = [val(a) for a in t[2]]
            dest, tgt = t[3], t[4]
            if tgt is None or len(dest) != 1:
                raise Unsupported("call %s" % nm)
            if re.search(r"::unsigned_abs$", nm) and args and args[0] == ("x",):
                env[dest[0]] = ("abs",)
                work.append((tgt, 0, dom, env))
            elif re.search(r"convert::From<bool>>?::from$|convert::From<[ui]\d+>>?::from$|::from$|::into$", nm) and len(args) == 1:
                a = args[0]
                if isinstance(a, tuple) and a[0] == "cmp":
                    def cont(part, bit, dest=dest, tgt=tgt):
                        e2 = dict(env); e2[dest[0]] = bit
                        work.append((tgt, 0, part, e2))
                    fork_on(a, cont)
                elif isinstance(a, int) or (isinstance(a, tuple) and a[0] in ("x", "abs")):
                    env[dest[0]] = a
                    work.append((tgt, 0, dom, env))
                else:
                    raise Unsupported("call %s on unknown value" % nm)
            elif models and any(a in (("x",), ("xref",), ("xref2",)) for a in args) and any(re.search(k_, nm) for k_ in models):
                mset = next(v_ for k_, v_ in models.items() if re.search(k_, nm))
                rng = next((a for a in args if isinstance(a, tuple) and a and a[0] == "range"), None)
                if mset == "range-contains":
                    if rng is None:
                        raise Unsupported("contains() on an unknown range")
                    mset = [(rng[1], rng[2])]
                tr = [(max(a_, x0), min(b_, x1)) for x0, x1 in dom for a_, b_ in mset if max(a_, x0) <= min(b_, x1)]
                fa = _minus(dom, tr)
                for part, bit in ((tr, 1), (fa, 0)):
                    if part:
                        e2 = dict(env); e2[dest[0]] = bit
                        work.append((tgt, 0, part, e2))
            elif resolve is not None and _depth < 3 and sum(1 for a in args if a in (("x",), ("xref",))) == 1 and all(a in (("x",), ("xref",)) or isinstance(a, int) for a in args) and resolve(nm) is not None:
                g = resolve(nm)
                k_x = [i for i, a in enumerate(args) if a in (("x",), ("xref",))][0] + 1
                by_ref = args[k_x - 1] == ("xref",)
                if nm not in sub_cache:
                    # by reference: x is `*arg` (or the single field of a newtype behind it)
                    sub_cache[nm] = piecewise(g, (lambda p, k_x=k_x: p == [k_x, "*"] or (len(p) == 3 and p[:2] == [k_x, "*"] and p[2] == ".0")) if by_ref else (lambda p, k_x=k_x: p == [k_x]),
                                              lo, hi, max_steps, resolve, _depth + 1)
                for a_, b_, r in sub_cache[nm]:
                    part = [(max(a_, x0), min(b_, x1)) for x0, x1 in dom if max(a_, x0) <= min(b_, x1)]
                    if part:
                        e2 = dict(env); e2[dest[0]] = r
                        work.append((tgt, 0, part, e2))
            elif fork_unknown and not any(a in (("x",), ("xref",), ("xref2",)) for a in args):
                env[dest[0]] = None
                work.append((tgt, 0, dom, env))
            else:
                raise Unsupported("call %s in bb%d" % (nm, b))
        else:
            raise Unsupported("terminator %s" % k)
    # merge adjacent intervals with equal value
    out.sort(key=lambda t_: (t_[0], t_[1], str(t_[2])))
    merged = []
    for a, b_, v in out:
        if merged and merged[-1][2] == v and merged[-1][1] + 1 == a:
            merged[-1] = (merged[-1][0], b_, v)
        else:
            merged.append((a, b_, v))
    return merged


def decimal_len(n):
    return len(str(n))
