"""BND: bounds obligations of slice accesses, discharged over the LIN abstraction.

For every slice access in a function - `x[a..]`, `x[..b]`, `x[a..b]` (Index::index with a range), `x[i]` (MIR bounds assertion), `split_at(mid)` and
friends, and every checked subtraction `a - b` - the obligation `E >= 0` is formed as a linear form over symbolic atoms (lengths, unsigned integers,
search results).  It is discharged if E follows from the facts that hold at the access: all atoms are unsigned, dominating comparisons (their pass
condition as `D >= 0`), results of searches on the same slice (`position`, `find_byte`, ...: `len(x) - pos - 1 >= 0`), `min`.  The prover is a sound,
incomplete syntactic Farkas check: E minus a non-negative combination of at most two facts must have only non-negative coefficients.
Everything not discharged is returned for review (census), never silently accepted."""
import re
from . import lin
from .flow import comparisons, bool_switch_edges

SEARCH = re.compile(r"::position$|::find_byte$|::find$|::find_byteset$|::find_not_byteset$|::rfind_byte$|::rfind$|::rposition$|memchr::memchr\w*$|::find_char$|::iter_position$|::binary_search(_by|_by_key)?$")
SPLIT = re.compile(r"::split_at(_mut)?$|::split_off$|::split_to$|::truncate$")
RANGE_INDEX = re.compile(r"::index(_mut)?$|::get_unchecked(_mut)?$")


def nonneg(e):
    """all atoms are unsigned quantities: a form with non-negative coefficients and constant is >= 0"""
    return e.c >= 0 and all(v >= 0 for v in e.t.values())


class Prover:
    def __init__(self, fn):
        self.fn = fn
        self.ev = lin.Evaluator(fn)
        self.fl = self.ev.fl
        self._cmp = None

    def guards_at(self, block):
        """[(D, line)] with D >= 0 known at `block` from dominating comparisons"""
        f = self.fn
        if self._cmp is None:
            self._cmp = []
            for c in comparisons(f, skip_debug=True):
                if c["op"] not in ("Lt", "Le", "Gt", "Ge", "Eq"):
                    continue
                e = bool_switch_edges(f, c["block"], c["res"])
                if not e:
                    continue
                a, b = self.ev.value(c["a"]), self.ev.value(c["b"])
                if a.opaque() and b.opaque():
                    continue
                self._cmp.append((c, e, a, b))
        out = []
        one = lin.Lin({}, 1)
        for c, (te, fe), a, b in self._cmp:
            if not f.dominates(c["block"], block) or c["block"] == block:
                continue
            on_true = self.fl.cut_off([block], te, start=c["block"])
            on_false = self.fl.cut_off([block], fe, start=c["block"])
            if on_true == on_false:
                continue
            op = c["op"]
            if op == "Eq":
                if on_true:
                    out.append((a - b, c["line"])); out.append((b - a, c["line"]))
                continue
            d = {("Lt", True): b - a - one, ("Lt", False): a - b, ("Le", True): b - a, ("Le", False): a - b - one,
                 ("Gt", True): a - b - one, ("Gt", False): b - a, ("Ge", True): a - b, ("Ge", False): b - a - one}[(op, on_true)]
            out.append((d, c["line"]))
        return out

    EMPTY = r"::is_empty$"
    NONEMPTY_SOME = r"::first$|::last$|::split_first$|::split_last$|::first_mut$|::last_mut$"
    PREFIX = r"::starts_with$|::ends_with$|::strip_prefix$|::strip_suffix$"

    def call_facts(self, block):
        """facts from the outcome of calls that dominate `block`: is_empty() == false, first()/last() is Some, starts_with(lit) ..."""
        if not hasattr(self, "_cf"):
            self._cf = []
            f = self.fn
            for c in f.calls():
                kind = "empty" if c.is_(self.EMPTY) else "some" if c.is_(self.NONEMPTY_SOME) else "prefix" if c.is_(self.PREFIX) else "get" if c.is_(r"::get$") else None
                if kind is None or not c.args:
                    continue
                ln = self.ev.length(c.args[0])
                if ln.opaque():
                    continue
                e = self.fl.result_edges(c)
                if kind == "empty":
                    # result bool: good = true edge?  result_edges classifies bools as good=true
                    self._cf.append((c, e["bad"], ln - lin.Lin({}, 1)))
                elif kind == "some":
                    self._cf.append((c, e["good"], ln - lin.Lin({}, 1)))
                elif kind == "prefix" and len(c.args) > 1:
                    lit = c.args[1]
                    n = len(bytes.fromhex(lit["bytes"])) if "bytes" in lit else None
                    if n is None and "p" in lit:
                        for r in self.fl.roots(lit, stop_named=False):
                            if r[0] == "const" and isinstance(r[1], bytes):
                                n = len(r[1])
                    if n:
                        self._cf.append((c, e["good"], ln - lin.Lin({}, n)))
                elif kind == "get" and len(c.args) > 1 and "p" not in c.args[1] and isinstance(c.args[1].get("v"), int):
                    self._cf.append((c, e["good"], ln - lin.Lin({}, c.args[1]["v"] + 1)))
        out = []
        for c, edges, fact in self._cf:
            if edges and self.fn.dominates(c.block, block) and c.block != block and self.fl.cut_off([block], edges, start=c.block):
                out.append((fact, c.line))
        return out

    def prove(self, e, block, extra=()):
        """True / reason"""
        if e.opaque():
            return False
        if nonneg(e):
            return True
        prior = []
        if getattr(self, "all_obligations", None):
            for o in self.all_obligations:
                if o.get("forms") and o["block"] != block and self.fn.dominates(o["block"], block):
                    prior += [(x, o["line"]) for x in o["forms"] if not x.opaque()]
        facts = prior + list(self.guards_at(block)) + self.call_facts(block) + [(x, 0) for x in extra] + [(x, 0) for x in getattr(self.ev, "pos_facts", [])]
        for d, _ in facts:
            if nonneg(e - d):
                return True
        for i, (d1, _) in enumerate(facts):
            for d2, _ in facts[i:]:
                if nonneg(e - d1 - d2):
                    return True
        return False


def obligations(fn, ev=None):
    """yields dict(kind, block, line, what, forms=[Lin >= 0 ...], base)"""
    ev = ev or lin.Evaluator(fn)
    for c in fn.calls():
        if c.is_(RANGE_INDEX.pattern) and len(c.args) == 2 and "p" in c.args[1]:
            ty = fn.locals[c.args[1]["p"][0]] if isinstance(c.args[1]["p"][0], int) else ""
            if ty == "usize" and c.is_(r"::index(_mut)?$") and len([x for x in c.args[1]["p"][1:] if x != "*"]) == 0:
                # v[i] on a Vec/SmallVec/BStr: a call of Index::index with a scalar (slices and arrays have a MIR bounds assertion instead, see below)
                ln = ev.length(c.args[0])
                idx = ev.value(c.args[1])
                yield {"kind": "scalar-index", "call": c, "block": c.block, "line": c.line, "forms": [ln - idx - lin.Lin({}, 1)], "what": "[%s] on len %s" % (idx, ln)}
                continue
            if "Range" not in ty:
                continue
            r = ev._range(c.args[1])
            if r is None:
                yield {"kind": "range-index", "call": c, "block": c.block, "line": c.line, "forms": None, "what": "range not resolved"}
                continue
            kind, a, b = r
            ln = ev.length(c.args[0])
            forms = []
            if kind == "RangeFrom":
                forms = [ln - a]
            elif kind == "RangeTo":
                forms = [ln - b]
            elif kind == "Range":
                forms = [b - a, ln - b]
            elif kind == "RangeFull":
                forms = []
            yield {"kind": "range-index", "call": c, "block": c.block, "line": c.line, "forms": forms, "what": "%s on len %s: %s" % (kind, ln, ", ".join(map(repr, forms)))}
        elif c.is_(SPLIT.pattern) and len(c.args) >= 2:
            ln = ev.length(c.args[0])
            mid = ev.value(c.args[1])
            yield {"kind": "split", "call": c, "block": c.block, "line": c.line, "forms": [ln - mid], "what": "%s(%s) on len %s" % (c.name.split("::")[-1], mid, ln)}
    # x[i] on arrays/slices: MIR bounds assertion `assert(Lt(i, len))`; checked subtraction: `assert(!overflow)` after SubWithOverflow
    one = lin.Lin({}, 1)
    for bi in sorted(fn.reachable_blocks()):
        t = fn.term(bi)
        if t[0] != "assert" or len(t) < 4:
            continue
        kind = t[3]
        if kind == "bounds" and "p" in t[1]:
            ds = [rv for b2, si, pl, rv, ln, mc in fn.assigns() if pl == [t[1]["p"][0]] and b2 == bi]
            if ds and ds[-1][0] == "bin" and ds[-1][1] == "Lt":
                idx, ln_ = ev.value(ds[-1][2]), ev.value(ds[-1][3])
                yield {"kind": "index", "block": bi, "line": t[-1] if isinstance(t[-1], int) else 0, "forms": [ln_ - idx - one], "what": "[%s] on len %s" % (idx, ln_)}
        elif kind == "overflow:Sub" and "p" in t[1]:
            ds = [rv for b2, si, pl, rv, ln, mc in fn.assigns() if pl == [t[1]["p"][0]] and b2 == bi]
            if ds and ds[-1][0] == "bin" and ds[-1][1].startswith("Sub"):
                a, b = ev.value(ds[-1][2]), ev.value(ds[-1][3])
                yield {"kind": "sub", "block": bi, "line": t[-1] if isinstance(t[-1], int) else 0, "forms": [a - b], "what": "%s - (%s)" % (a, b)}
