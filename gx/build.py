"""Build (or reuse) gxmir facts for /repo's *current working tree*.

Facts live next to a persistent cargo target dir under /verif/.cache/<config>/ .  A stamp holds
the hash of every source / manifest file of /repo plus the hash of the driver binary.  If the
stamp differs, cargo (with the driver as RUSTC_WORKSPACE_WRAPPER) is re-run: cargo recompiles
exactly the crates whose sources changed (and their dependents) and the driver overwrites their
fact files; untouched crates keep theirs.  After every build the presence of a fact file newer
than the build start (or untouched-and-present) is asserted for every workspace library.
"""
import hashlib, json, os, shutil, subprocess, sys, time, glob, fcntl

VERIF = os.path.dirname(os.path.dirname(os.path.abspath(__file__)))
REPO = os.environ.get("GX_REPO", "/repo")
CACHE = os.environ.get("GX_CACHE", os.path.join(VERIF, ".cache"))
DRIVER_DIR = os.path.join(VERIF, "driver")
DRIVER = os.path.join(DRIVER_DIR, "target", "release", "gxmir")

CONFIGS = {
    # name: (cargo args relative to REPO)
    "ws": ["--workspace"],
    "tf-nohp": ["--manifest-path", "gix-tempfile/Cargo.toml", "--no-default-features", "--features", "signals"],
    "pl-async": ["--manifest-path", "gix-packetline/Cargo.toml", "--no-default-features", "--features", "async-io"],
    "fs-par": ["--manifest-path", "gix-features/Cargo.toml", "--features", "fs-walkdir-parallel"],
    # features that `cargo test --workspace` only enables through dev-dependencies
    "gix-te": ["--manifest-path", "gix/Cargo.toml", "--features", "tree-editor"],
}


def set_repo(path, cache_dir):
    """Point the facts builder at another checkout (sensitivity self-tests on a scratch copy) with its own cache."""
    global REPO, CACHE
    REPO = path
    CACHE = cache_dir
    _meta_cache.clear()


def sh(cmd, **kw):
    return subprocess.run(cmd, stdout=subprocess.PIPE, stderr=subprocess.STDOUT, text=True, **kw)


def nightly_sysroot():
    r = subprocess.run(["rustc", "+nightly", "--print", "sysroot"], stdout=subprocess.PIPE, text=True, check=True)
    return r.stdout.strip()


def base_env():
    env = dict(os.environ)
    env["CARGO_NET_OFFLINE"] = "true"
    env.pop("RUSTC_WRAPPER", None)
    return env


def ensure_driver(log=None):
    """(Re)build the driver if its sources are newer than the binary."""
    src = [os.path.join(DRIVER_DIR, "src", "main.rs"), os.path.join(DRIVER_DIR, "Cargo.toml")]
    if os.path.exists(DRIVER) and all(os.path.getmtime(DRIVER) >= os.path.getmtime(s) for s in src):
        return
    r = sh(["cargo", "build", "--release", "--offline"], cwd=DRIVER_DIR, env=base_env())
    if r.returncode != 0 or not os.path.exists(DRIVER):
        sys.stderr.write(r.stdout)
        raise SystemExit("gxmir driver failed to build")


def tree_files():
    """All files of /repo that can influence the type-checked program."""
    out = subprocess.run(["git", "-C", REPO, "ls-files", "-c", "-o", "--exclude-standard", "-z"],
                         stdout=subprocess.PIPE, check=True).stdout.decode("utf8", "surrogateescape")
    files = []
    for f in out.split("\0"):
        if not f:
            continue
        b = os.path.basename(f)
        if f.endswith(".rs") or b in ("Cargo.toml", "Cargo.lock") or f.endswith(".toml") and "/.cargo/" in f:
            if "/tests/fixtures/" in f:
                continue
            files.append(f)
    files.sort()
    return files


def tree_hash():
    h = hashlib.sha256()
    for f in tree_files():
        p = os.path.join(REPO, f)
        try:
            with open(p, "rb") as fh:
                data = fh.read()
        except OSError:
            data = b"<missing>"
        h.update(f.encode("utf8", "surrogateescape"))
        h.update(b"\0")
        h.update(hashlib.sha256(data).digest())
    return h.hexdigest()


def driver_hash():
    with open(DRIVER, "rb") as fh:
        return hashlib.sha256(fh.read()).hexdigest()[:16]


_meta_cache = {}


def workspace_members():
    """[(package name, manifest dir, [lib crate names])] from cargo metadata (no deps)."""
    if "m" in _meta_cache:
        return _meta_cache["m"]
    r = subprocess.run(["cargo", "metadata", "--no-deps", "--offline", "--format-version", "1"],
                       cwd=REPO, stdout=subprocess.PIPE, stderr=subprocess.PIPE, text=True, env=base_env())
    if r.returncode != 0:
        sys.stderr.write(r.stderr)
        raise SystemExit("cargo metadata failed")
    meta = json.loads(r.stdout)
    res = []
    for p in meta["packages"]:
        libs = []
        for t in p["targets"]:
            if any(k in ("lib", "rlib", "proc-macro", "cdylib", "dylib") for k in t["kind"]):
                libs.append(t["name"].replace("-", "_"))
        res.append((p["name"], os.path.dirname(p["manifest_path"]), libs))
    _meta_cache["m"] = res
    return res


def expected_libs(config):
    if config == "ws":
        return sorted({l for _, _, libs in workspace_members() for l in libs})
    return {"tf-nohp": ["gix_tempfile"], "pl-async": ["gix_packetline"], "fs-par": ["gix_features"], "gix-te": ["gix"]}[config]


def facts_dir(config):
    return os.path.join(CACHE, config, "facts")


def _wipe_member_fingerprints(tdir):
    fp = os.path.join(tdir, "debug", ".fingerprint")
    if not os.path.isdir(fp):
        return
    names = {n for n, _, _ in workspace_members()}
    for d in os.listdir(fp):
        base = d.rsplit("-", 1)[0]
        if base in names:
            shutil.rmtree(os.path.join(fp, d), ignore_errors=True)


def ensure_facts(config="ws", verbose=False):
    """Returns (facts_dir, info dict).  Fails closed (SystemExit 2) if the tree does not build
    or a fact file is missing."""
    ensure_driver()
    cdir = os.path.join(CACHE, config)
    os.makedirs(cdir, exist_ok=True)
    lock = open(os.path.join(cdir, ".lock"), "w")
    fcntl.flock(lock, fcntl.LOCK_EX)
    try:
        return _ensure_facts_locked(config, cdir, verbose)
    finally:
        fcntl.flock(lock, fcntl.LOCK_UN)
        lock.close()


def _ensure_facts_locked(config, cdir, verbose):
    fdir = os.path.join(cdir, "facts")
    tdir = os.path.join(cdir, "target")
    stamp_p = os.path.join(cdir, "stamp.json")
    want = {"tree": tree_hash(), "driver": driver_hash(), "repo": REPO}
    have = None
    if os.path.exists(stamp_p):
        try:
            have = json.load(open(stamp_p))
        except Exception:
            have = None
    exp = expected_libs(config)

    def missing():
        return [l for l in exp if not glob.glob(os.path.join(fdir, l + ".lib*.json"))]

    info = {"config": config, "tree": want["tree"], "rebuilt": False}
    if have and all(have.get(k) == want[k] for k in want) and not missing():
        info["build_s"] = have.get("build_s", 0.0)
        return fdir, info
    os.makedirs(fdir, exist_ok=True)
    if not have or have.get("driver") != want["driver"] or have.get("repo") != want["repo"] or missing():
        # facts of unchanged crates cannot be trusted / are absent: force the members through the driver again
        for f in glob.glob(os.path.join(fdir, "*.json")):
            os.remove(f)
        _wipe_member_fingerprints(tdir)
    if os.path.exists(stamp_p):
        os.remove(stamp_p)
    env = base_env()
    env["LD_LIBRARY_PATH"] = os.path.join(nightly_sysroot(), "lib") + ":" + env.get("LD_LIBRARY_PATH", "")
    env["RUSTFLAGS"] = "-Zmir-opt-level=0 -Awarnings"
    env["RUSTC_WORKSPACE_WRAPPER"] = DRIVER
    env["GXMIR_OUT"] = fdir
    env["CARGO_TARGET_DIR"] = tdir
    cmd = ["cargo", "+nightly", "check", "--offline"] + CONFIGS[config]
    t0 = time.time()
    r = sh(cmd, cwd=REPO, env=env)
    dt = time.time() - t0
    if r.returncode != 0:
        sys.stderr.write(r.stdout[-6000:])
        sys.stderr.write("\ngx: /repo does not build under config %s; cannot decide anything\n" % config)
        raise SystemExit(2)
    m = missing()
    if m:
        sys.stderr.write("gx: fact files missing after build for crates: %s\n" % m)
        raise SystemExit(2)
    want["build_s"] = round(dt, 1)
    with open(stamp_p, "w") as fh:
        json.dump(want, fh)
    info["rebuilt"] = True
    info["build_s"] = round(dt, 1)
    if verbose:
        sys.stderr.write("gx: facts for %s rebuilt in %.1fs\n" % (config, dt))
    return fdir, info


if __name__ == "__main__":
    cfgs = sys.argv[1:] or ["ws"]
    for c in cfgs:
        d, i = ensure_facts(c, verbose=True)
        print(c, d, i)
