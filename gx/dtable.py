"""Decision-table extraction: enumerate the variant combinations of selected enum-typed places and determine, per
combination, whether given sink blocks are reachable (a) when every value comparison yields `equal`, (b) when every
value comparison yields `different`.  Path-sensitive only in the selected discriminants."""
import itertools, re
from .flow import Flow


def compare_edges(fn, fl, cmp_pat):
    """(equal_edges, mismatch_edges) for all eq/ne calls matching cmp_pat"""
    eq_e, ne_e = set(), set()
    n = 0
    for c in fn.calls():
        if not c.is_(cmp_pat):
            continue
        e = fl.result_edges(c)
        if not e["good"] and not e["bad"]:
            continue
        n += 1
        if c.name.endswith("::ne") or c.path.endswith("::ne"):
            ne_e |= e["good"]; eq_e |= e["bad"]
        else:
            eq_e |= e["good"]; ne_e |= e["bad"]
    return eq_e, ne_e, n


def table(fn, selectors, sinks, cmp_pat, start=0, stop_blocks=()):
    """selectors: [(name, predicate(roots)->bool, [variants])].  Returns {combo tuple: (reach_if_equal, reach_if_different)}"""
    fl = Flow(fn)
    eq_e, ne_e, ncmp = compare_edges(fn, fl, cmp_pat)
    sel_at = {}
    for b in fn.reachable_blocks():
        sv = fn.switch_variants(b)
        if not sv:
            continue
        roots = fl.roots(sv["place"], stop_named=True)
        for i, (name, pred, variants) in enumerate(selectors):
            if pred(roots):
                sel_at[b] = (i, sv["edges"])
    out = {}
    for combo in itertools.product(*[v for _, _, v in selectors]):
        res = []
        for avoid in (ne_e, eq_e):
            seen = {start}
            st = [start]
            while st:
                b = st.pop()
                if b in stop_blocks:
                    continue
                succs = fn.succs(b)
                if b in sel_at:
                    i, edges = sel_at[b]
                    succs = [t for t, names in edges.items() if combo[i] in names]
                for s in succs:
                    if (b, s) in avoid or s in seen:
                        continue
                    seen.add(s)
                    st.append(s)
            res.append(bool(seen & set(sinks)))
        out[combo] = tuple(res)
    return out, {"comparisons": ncmp, "selector_switches": len(sel_at)}
