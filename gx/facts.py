"""Loading and querying gxmir facts: functions, CFGs, dominators, loops, call graph, def-use."""
import glob, json, os, re
from collections import defaultdict, deque


class Call:
    __slots__ = ("fn", "block", "callee", "args", "dest", "target", "unwind", "line", "macros")

    def __init__(self, fn, block, t):
        self.fn = fn
        self.block = block
        self.callee = t[1]
        self.args = t[2]
        self.dest = t[3]
        self.target = t[4]
        self.unwind = t[5]
        self.line = t[6]
        self.macros = t[7] if len(t) > 7 else []

    @property
    def path(self):
        return self.callee.get("path", "")

    @property
    def name(self):
        """resolved callee if resolution succeeded, else the (trait) path"""
        return self.callee.get("res") or self.callee.get("path", "<indirect>")

    @property
    def names(self):
        return {self.callee.get("res"), self.callee.get("path")} - {None}

    def is_(self, pat):
        return any(re.search(pat, n) for n in self.names)

    def where(self):
        return "%s:%d" % (self.fn.file, self.line)

    def __repr__(self):
        return "<call %s in %s bb%d @%d>" % (self.name, self.fn.name, self.block, self.line)


class Fn:
    def __init__(self, d, crate):
        self.d = d
        self.crate = crate
        self.name = d["name"]
        self.file = d["file"]
        self.line = d["line"]
        self.kind = d["kind"]
        self.blocks = d["blocks"]
        self.locals = d["locals"]
        self.argc = d["argc"]
        self.names = d.get("names", {})
        self.root = d.get("root")
        self.trait_item = d.get("trait_item")
        self.self_ty = d.get("self_ty")
        self._cache = {}

    def __repr__(self):
        return "<fn %s>" % self.name

    # ---- CFG -------------------------------------------------------------------------------
    def term(self, b):
        return self.blocks[b]["t"]

    def stmts(self, b):
        return self.blocks[b]["s"]

    def is_cleanup(self, b):
        return bool(self.blocks[b].get("cu"))

    def succs(self, b, unwind=False):
        t = self.blocks[b]["t"]
        k = t[0]
        out = []
        if k == "goto":
            out = [t[1]]
        elif k == "switch":
            out = [x[1] for x in t[2]] + [t[3]]
        elif k == "call":
            if t[4] is not None:
                out.append(t[4])
            if unwind and t[5] is not None:
                out.append(t[5])
        elif k == "drop":
            out = [t[2]]
            if unwind and t[3] is not None:
                out.append(t[3])
        elif k == "assert":
            out = [t[4]]
            if unwind and t[5] is not None:
                out.append(t[5])
        elif k == "yield":
            out = [t[1]]
        elif k == "asm":
            out = list(t[1])
        seen = []
        for x in out:
            if x not in seen:
                seen.append(x)
        return seen

    def preds(self):
        if "preds" not in self._cache:
            p = defaultdict(list)
            for b in range(len(self.blocks)):
                for s in self.succs(b):
                    p[s].append(b)
            self._cache["preds"] = p
        return self._cache["preds"]

    def reachable_blocks(self):
        if "reach" not in self._cache:
            self._cache["reach"] = self.reach_from(0)
        return self._cache["reach"]

    def reach_from(self, start, avoid=(), avoid_edges=()):
        """blocks reachable from `start` (inclusive) without entering blocks in `avoid`
        and without taking (src,dst) edges in avoid_edges"""
        avoid = set(avoid)
        avoid_edges = set(avoid_edges)
        starts = [start] if isinstance(start, int) else list(start)
        seen = set()
        dq = deque()
        for s in starts:
            if s not in avoid:
                seen.add(s)
                dq.append(s)
        while dq:
            b = dq.popleft()
            for s in self.succs(b):
                if s in avoid or (b, s) in avoid_edges or s in seen:
                    continue
                seen.add(s)
                dq.append(s)
        return seen

    def idom(self):
        """immediate dominators over the normal-edge CFG (Cooper-Harvey-Kennedy)."""
        if "idom" in self._cache:
            return self._cache["idom"]
        order = []
        seen = set()
        stack = [(0, iter(self.succs(0)))]
        seen.add(0)
        while stack:
            b, it = stack[-1]
            adv = False
            for s in it:
                if s not in seen:
                    seen.add(s)
                    stack.append((s, iter(self.succs(s))))
                    adv = True
                    break
            if not adv:
                order.append(b)
                stack.pop()
        rpo = list(reversed(order))
        num = {b: i for i, b in enumerate(rpo)}
        preds = self.preds()
        idom = {0: 0}
        changed = True
        while changed:
            changed = False
            for b in rpo[1:]:
                new = None
                for p in preds[b]:
                    if p in idom:
                        if new is None:
                            new = p
                        else:
                            a, c = p, new
                            while a != c:
                                while num[a] > num[c]:
                                    a = idom[a]
                                while num[c] > num[a]:
                                    c = idom[c]
                            new = a
                if new is not None and idom.get(b) != new:
                    idom[b] = new
                    changed = True
        self._cache["idom"] = idom
        self._cache["rpo"] = rpo
        return idom

    def dominates(self, a, b):
        idom = self.idom()
        if b not in idom or a not in idom:
            return False
        while True:
            if a == b:
                return True
            if b == 0:
                return False
            b = idom[b]

    def loops(self):
        """natural loops: list of dict(header, body(set), backedges[(src,header)], exits[(src,dst)])"""
        if "loops" in self._cache:
            return self._cache["loops"]
        self.idom()
        preds = self.preds()
        byh = {}
        for b in self.reachable_blocks():
            for s in self.succs(b):
                if self.dominates(s, b):
                    body = byh.setdefault(s, {"header": s, "body": {s}, "backedges": []})
                    body["backedges"].append((b, s))
                    st = [b]
                    while st:
                        x = st.pop()
                        if x in body["body"]:
                            continue
                        body["body"].add(x)
                        st.extend(preds[x])
        res = []
        for h, l in byh.items():
            l["exits"] = [(b, s) for b in l["body"] for s in self.succs(b) if s not in l["body"]]
            res.append(l)
        self._cache["loops"] = res
        return res

    # ---- instructions ----------------------------------------------------------------------
    def calls(self):
        if "calls" not in self._cache:
            cs = []
            for i, b in enumerate(self.blocks):
                t = b["t"]
                if t[0] == "call":
                    cs.append(Call(self, i, t))
            self._cache["calls"] = cs
        return self._cache["calls"]

    def calls_to(self, pat):
        return [c for c in self.calls() if c.is_(pat)]

    def return_blocks(self):
        return [i for i, b in enumerate(self.blocks) if b["t"][0] == "ret"]

    def assigns(self):
        """yield (block, idx, place, rvalue, line, macros) for blocks reachable over normal (non-unwind) edges"""
        reach = self.reachable_blocks()
        for bi, b in enumerate(self.blocks):
            if bi not in reach:
                continue
            for si, s in enumerate(b["s"]):
                if s[0] == "a":
                    yield bi, si, s[1], s[2], s[3], (s[4] if len(s) > 4 else [])

    def defs(self):
        """local -> list of (block, idx|'t', kind, payload) for every definition of the whole local or a part"""
        if "defs" in self._cache:
            return self._cache["defs"]
        d = defaultdict(list)
        for bi, si, pl, rv, ln, mc in self.assigns():
            d[pl[0]].append((bi, si, "a", (pl, rv)))
        for c in self.calls():
            d[c.dest[0]].append((c.block, "t", "call", c))
        self._cache["defs"] = d
        return d

    def local_name(self, l):
        return self.names.get(str(l))

    def locals_named(self, name):
        return [int(k) for k, v in self.names.items() if v == name and k.isdigit()]

    def switch_variants(self, b):
        """for a switch on an enum discriminant: {target_block: [variant names]}, plus 'otherwise'"""
        t = self.term(b)
        if t[0] != "switch":
            return None
        op = t[1]
        if "p" not in op:
            return None
        l = op["p"][0]
        variants = None
        place = None
        for s in reversed(self.stmts(b)):
            if s[0] == "a" and s[1] == [l] and s[2][0] == "discr":
                variants = s[2][2]
                place = s[2][1]
                break
        if variants is None:
            return None
        res = defaultdict(list)
        used = set()
        for v, tgt in t[2]:
            n = variants.get(str(v))
            if n is not None:
                res[tgt].append(n)
                used.add(n)
        rest = [n for n in variants.values() if n not in used]
        if rest:
            res[t[3]].extend(rest)
        return {"place": place, "edges": dict(res)}


class DB:
    def __init__(self, fdir):
        self.fdir = fdir
        self.crates = {}
        self.fns = {}
        self.consts = {}
        self.impls = defaultdict(list)      # trait method path -> [impl method path]
        self.trait_impls = []               # dicts
        self.by_crate = defaultdict(list)
        self._cg = None
        for p in sorted(glob.glob(os.path.join(fdir, "*.json"))):
            base = os.path.basename(p)
            crate, kind = base.split(".")[0], base.split(".")[1]
            with open(p) as fh:
                d = json.load(fh)
            unit = crate if kind.startswith("lib") else crate + "#bin"
            self.crates[unit] = {"path": p, "nbodies": d.get("nbodies", 0)}
            for f in d["fns"]:
                fn = Fn(f, unit)
                key = fn.name if kind.startswith("lib") else unit + "::" + fn.name
                fn.key = key
                if key in self.fns:
                    # same pretty path twice (e.g. cfg-duplicated impls); keep both under a suffix
                    n = 2
                    while "%s#%d" % (key, n) in self.fns:
                        n += 1
                    key = "%s#%d" % (key, n)
                    fn.key = key
                self.fns[key] = fn
                self.by_crate[unit].append(fn)
                fn.promoteds = self.fns     # lookup table for `<fn name>::{promoted#N}` bodies (see Fn.promoted)
            if kind.startswith("lib"):
                for c in d["consts"]:
                    self.consts[c["name"]] = c
                for im in d["impls"]:
                    self.trait_impls.append(im)
                    for tm, imeth in im["methods"].items():
                        self.impls[tm].append(imeth)

    # ---- lookup ---------------------------------------------------------------------------
    def fn(self, name):
        return self.fns.get(name)

    def find(self, pat, crate=None):
        rx = re.compile(pat)
        src = self.by_crate[crate] if crate else self.fns.values()
        return [f for f in src if rx.search(f.name)]

    def one(self, pat, crate=None):
        r = self.find(pat, crate)
        if len(r) != 1:
            raise AnchorLost("expected exactly one function matching %r, found %d: %s" % (pat, len(r), [f.name for f in r][:6]))
        return r[0]

    def const(self, name):
        c = self.consts.get(name)
        if c is None:
            raise AnchorLost("constant %s not found" % name)
        return c

    def closures_of(self, fn):
        """closure bodies (transitively) defined inside fn"""
        pref = fn.name + "::{closure#"
        return [f for f in self.by_crate[fn.crate] if f.name.startswith(pref)]

    def const_uses(self, crates=None):
        """const def path -> list of (fn, block, context) where context is ('bin', op, line) | ('call', callee, line) | ('other', kind, line)"""
        key = ("cu", tuple(crates) if crates else None)
        if not hasattr(self, "_cu"):
            self._cu = {}
        if key in self._cu:
            return self._cu[key]
        uses = defaultdict(list)
        src = self.fns.values() if not crates else [f for c in crates for f in self.by_crate[c]]
        for f0 in src:
            # uses inside promoted constants (`&CONST`, tables) are attributed to the function they belong to
            f = self.fns.get(f0.root, f0) if f0.kind == "promoted" and f0.root else f0
            for bi, b in enumerate(f0.blocks):
                for s in b["s"]:
                    if s[0] != "a":
                        continue
                    rv = s[2]
                    for op in rvalue_operands(rv):
                        if "def" in op:
                            ctx = ("bin", rv[1], s[3]) if rv[0] == "bin" else ("other", rv[0], s[3])
                            uses[op["def"]].append((f, bi, ctx))
                t = b["t"]
                if t[0] == "call":
                    for a in t[2]:
                        if "def" in a:
                            uses[a["def"]].append((f, bi, ("call", t[1].get("res") or t[1].get("path", ""), t[6])))
                elif t[0] == "switch" and "def" in t[1]:
                    uses[t[1]["def"]].append((f, bi, ("other", "switch", t[-1] if isinstance(t[-1], int) else 0)))
        self._cu[key] = uses
        return uses

    # ---- call graph -----------------------------------------------------------------------
    def edges(self, fn):
        """set of callee names (workspace keys or external paths) that fn may invoke"""
        out = set()
        for c in fn.calls():
            cal = c.callee
            if "path" in cal:
                res = cal.get("res")
                if res:
                    out.add(res)
                else:
                    out.add(cal["path"])
                    if cal.get("trait") and (cal.get("unres") or cal.get("virt")):
                        out.update(self.impls.get(cal["path"], ()))
                for k in ("recv_closure", "recv_fn"):
                    if k in cal:
                        out.add(cal[k])
            for a in c.args:
                for k in ("fn", "closure"):
                    if k in a:
                        out.add(a[k])
        for bi, si, pl, rv, ln, mc in fn.assigns():
            if rv[0] == "agg" and rv[1] in ("closure", "coroutine", "coroutine_closure"):
                out.add(rv[2])
            for op in rvalue_operands(rv):
                for k in ("fn", "closure"):
                    if k in op:
                        out.add(op[k])
        return out

    def callgraph(self):
        if self._cg is None:
            self._cg = {k: self.edges(f) for k, f in self.fns.items()}
        return self._cg

    def reachable(self, roots, stop=None):
        """keys/names reachable from roots (list of fn keys); returns dict name -> parent (for paths)"""
        cg = self.callgraph()
        parent = {}
        dq = deque()
        for r in roots:
            if r not in parent:
                parent[r] = None
                dq.append(r)
        while dq:
            n = dq.popleft()
            if stop and stop(n) and parent[n] is not None:
                continue
            for m in cg.get(n, ()):
                if m not in parent:
                    parent[m] = n
                    dq.append(m)
        return parent

    @staticmethod
    def path_to(parent, n):
        p = []
        while n is not None:
            p.append(n)
            n = parent[n]
        return list(reversed(p))


class AnchorLost(Exception):
    pass


def rvalue_operands(rv):
    k = rv[0]
    if k in ("use", "repeat"):
        return [rv[1]]
    if k == "cast":
        return [rv[2]]
    if k == "bin":
        return [rv[2], rv[3]]
    if k == "un":
        return [rv[2]]
    if k == "agg":
        return list(rv[4])
    return []


def rvalue_places(rv):
    """places read by an rvalue (including ref/discr bases)"""
    out = [op["p"] for op in rvalue_operands(rv) if "p" in op]
    if rv[0] in ("ref", "rawptr"):
        out.append(rv[2])
    if rv[0] == "discr":
        out.append(rv[1])
    return out


def op_local(op):
    return op["p"][0] if "p" in op else None


def op_const(op):
    return op.get("v") if "p" not in op else None


def load(config="ws"):
    import pickle
    from . import build
    fdir, info = build.ensure_facts(config)
    # parsed-facts cache: valid for exactly this tree hash, this facts directory listing and this version of facts.py
    sig = "%s|%s|%s" % (info.get("tree", ""), os.path.getmtime(os.path.abspath(__file__)),
                        ",".join("%s:%d" % (os.path.basename(p), os.path.getmtime(p)) for p in sorted(glob.glob(os.path.join(fdir, "*.json")))))
    pk = os.path.join(os.path.dirname(fdir), "db.pickle")
    if os.environ.get("GX_NO_PICKLE") != "1" and os.path.exists(pk):
        try:
            with open(pk, "rb") as fh:
                got_sig, db = pickle.load(fh)
            if got_sig == sig:
                db.info = info
                return db
        except Exception:
            pass
    db = DB(fdir)
    db.info = info
    try:
        tmp = pk + ".tmp%d" % os.getpid()
        with open(tmp, "wb") as fh:
            pickle.dump((sig, db), fh, protocol=pickle.HIGHEST_PROTOCOL)
        os.replace(tmp, pk)
    except Exception:
        pass
    return db
