"""Intra-procedural flow helpers over gxmir facts: backward derivation roots, forward result
tracking to the switch that inspects it, guard cut-sets."""
import re
from collections import defaultdict, deque
from .facts import rvalue_operands, rvalue_places

# calls that merely pass their first argument through (value-preserving adaptors of Result/Option/refs)
PASS_THROUGH = re.compile(
    r"(::map_err$|::map$|Try>?::branch$|::into$|::from$|::as_ref$|::as_mut$|::as_deref$|::ok_or|::ok$|::err$|"
    r"::and_then$|::transpose$|::copied$|::cloned$|::clone$|Deref>?::deref$|::deref_mut$|::borrow$|::as_slice$|"
    r"::as_bytes$|::as_bstr$|::as_str$|::to_owned$|::unwrap_or)"
)
GOOD_VARIANTS = {"Ok", "Some", "Continue"}
BAD_VARIANTS = {"Err", "None", "Break"}


class Flow:
    def __init__(self, fn):
        self.fn = fn
        self.defs = fn.defs()

    # ---- backward derivation ------------------------------------------------------------------
    def roots(self, start, stop_named=True, through_calls=True, limit=4000, stop_calls=None, sites=False):
        """set of roots a local/operand derives from.
        roots: ('arg', n, proj) ('var', local, name, proj) ('const', repr) ('call', name) ('static', ..)
        proj = tuple of non-deref projections accumulated on the way (outermost last)."""
        fn = self.fn
        out = set()
        seen = set()
        work = deque()

        def push(local, proj):
            k = (local, proj)
            if k not in seen and len(seen) < limit:
                seen.add(k)
                work.append(k)

        def push_op(op, proj):
            if "p" in op:
                pl = op["p"]
                push(pl[0], tuple(x for x in pl[1:] if x != "*") + proj)
            else:
                if "promoted" in op:
                    out.add(("promoted", op["promoted"]))
                if "def" in op:
                    out.add(("constdef", op["def"]))
                if "fn" in op:
                    out.add(("fnitem", op["fn"]))
                if "v" in op:
                    out.add(("const", op["v"]))
                elif "refv" in op:
                    out.add(("const", op["refv"]))
                elif "bytes" in op:
                    out.add(("const", bytes.fromhex(op["bytes"])))
                elif "def" not in op and "fn" not in op:
                    out.add(("const", "?" + op.get("ty", "")))

        if isinstance(start, dict):
            push_op(start, ())
        elif isinstance(start, list):
            push(start[0], tuple(x for x in start[1:] if x != "*"))
        else:
            push(start, ())
        first = True
        while work:
            l, proj = work.popleft()
            nm = fn.local_name(l)
            if 1 <= l <= fn.argc:
                out.add(("arg", l, proj))
                continue
            if stop_named and nm is not None and not first:
                out.add(("var", l, nm, proj))
                continue
            first = False
            ds = self.defs.get(l, [])
            if not ds:
                if nm is not None:
                    out.add(("var", l, nm, proj))
                else:
                    out.add(("undef", l))
                continue
            for (bi, si, kind, payload) in ds:
                if kind == "a":
                    pl, rv = payload
                    k = rv[0]
                    if k in ("use", "cast", "un", "repeat"):
                        for op in rvalue_operands(rv):
                            push_op(op, proj)
                    elif k in ("ref", "rawptr"):
                        p = rv[2]
                        push(p[0], tuple(x for x in p[1:] if x != "*") + proj)
                    elif k == "bin":
                        for op in rvalue_operands(rv):
                            push_op(op, proj)
                    elif k == "agg":
                        sel = None
                        if proj and len(pl) == 1 and proj[0].startswith("."):
                            # field selection on an aggregate: follow only the selected operand
                            fname = proj[0][1:]
                            if rv[1] == "tuple" and fname.isdigit() and int(fname) < len(rv[4]):
                                sel = int(fname)
                            elif rv[1] == "adt" and len(rv) > 5 and fname in rv[5] and len(rv[5]) == len(rv[4]):
                                sel = rv[5].index(fname)
                            elif rv[1] == "closure" and fname.isdigit() and int(fname) < len(rv[4]):
                                sel = int(fname)
                        if proj and len(pl) == 1 and proj[0].startswith("as ") and rv[1] == "adt":
                            if rv[3] != proj[0][3:]:
                                continue  # a different variant was stored here: not the value read through this downcast
                            if len(proj) > 1 and proj[1].startswith(".") and len(rv) > 5 and proj[1][1:] in rv[5] and len(rv[5]) == len(rv[4]):
                                push_op(rv[4][rv[5].index(proj[1][1:])], proj[2:])
                                continue
                        if sel is not None:
                            push_op(rv[4][sel], proj[1:])
                            continue
                        for op in rv[4]:
                            push_op(op, proj)
                        if not rv[4]:
                            out.add(("const", "agg:" + rv[2] + "::" + rv[3]))
                    elif k == "discr":
                        p = rv[1]
                        push(p[0], tuple(x for x in p[1:] if x != "*") + proj)
                    else:
                        out.add(("other", k))
                else:
                    c = payload
                    if sites:
                        out.add(("call", c.name, c.block, proj))
                    else:
                        out.add(("call", c.name))
                    if stop_calls is not None and c.is_(stop_calls):
                        continue
                    if through_calls:
                        for a in c.args:
                            push_op(a, proj)
        return out

    def const_roots(self, start):
        return {r[1] for r in self.roots(start, stop_named=False) if r[0] == "const"}

    def root_vars(self, start):
        return {r[1] for r in self.roots(start) if r[0] in ("var", "arg")}

    def derives_from_call(self, start, pat):
        return any(r[0] == "call" and re.search(pat, r[1]) for r in self.roots(start, stop_named=False))

    # ---- forward tracking of a call result to the switch that inspects it -----------------------
    def result_edges(self, call, extra_pass=None, nested=False):
        """Follow the value returned by `call` through pass-through adaptors and moves to every
        switch on its discriminant.  Returns dict(good=set((b,s)), bad=set((b,s)), switches=[b])."""
        fn = self.fn
        tainted = {call.dest[0]}
        changed = True
        blocks = fn.reachable_blocks()
        while changed:
            changed = False
            for bi in blocks:
                for s in fn.stmts(bi):
                    if s[0] != "a":
                        continue
                    pl, rv = s[1], s[2]
                    if len(pl) != 1 or pl[0] in tainted:
                        continue
                    if rv[0] in ("use", "cast"):
                        op = rvalue_operands(rv)[0]
                        if "p" in op and op["p"][0] in tainted and len([x for x in op["p"][1:] if x != "*"]) == 0:
                            tainted.add(pl[0]); changed = True
                    elif rv[0] == "ref":
                        if rv[2][0] in tainted and len([x for x in rv[2][1:] if x != "*"]) == 0:
                            tainted.add(pl[0]); changed = True
                t = fn.term(bi)
                if t[0] == "call":
                    cal = t[1]
                    nm = cal.get("res") or cal.get("path", "")
                    if (PASS_THROUGH.search(nm) or PASS_THROUGH.search(cal.get("path", "")) or (extra_pass and re.search(extra_pass, nm))) and t[2]:
                        a0 = t[2][0]
                        if "p" in a0 and a0["p"][0] in tainted and t[3][0] not in tainted:
                            tainted.add(t[3][0]); changed = True
        good, bad, sw = set(), set(), []
        for bi in blocks:
            sv = fn.switch_variants(bi)
            if not sv:
                # bool result switched directly
                t = fn.term(bi)
                if t[0] == "switch" and "p" in t[1] and t[1]["p"] == [t[1]["p"][0]] and t[1]["p"][0] in tainted and t[4] == "bool":
                    sw.append(bi)
                    for v, tgt in t[2]:
                        (bad if v == 0 else good).add((bi, tgt))
                    # otherwise edge = the complementary truth value
                    if all(v == 0 for v, _ in t[2]):
                        good.add((bi, t[3]))
                    else:
                        bad.add((bi, t[3]))
                continue
            if sv["place"][0] in tainted and (nested or all(x == "*" for x in sv["place"][1:])):
                sw.append(bi)
                for tgt, names in sv["edges"].items():
                    if any(n in GOOD_VARIANTS for n in names) and not any(n in BAD_VARIANTS for n in names):
                        good.add((bi, tgt))
                    elif any(n in BAD_VARIANTS for n in names):
                        bad.add((bi, tgt))
        return {"good": good, "bad": bad, "switches": sw, "tainted": tainted}

    def cut_off(self, sink_blocks, edges, start=0):
        """True iff no block of sink_blocks is reachable from start once `edges` are removed"""
        r = self.fn.reach_from(start, avoid_edges=edges)
        return not (set(sink_blocks) & r)


def bool_call_edges(fn, call):
    """for a call returning bool whose result is switched on: (true_edges, false_edges)"""
    fl = Flow(fn)
    e = fl.result_edges(call)
    return e["good"], e["bad"]


def const_args(call):
    """constant values among a call's arguments (ints, bytes, refv)"""
    out = []
    for a in call.args:
        if "p" not in a:
            if "v" in a:
                out.append(a["v"])
            elif "refv" in a:
                out.append(a["refv"])
            elif "bytes" in a:
                out.append(bytes.fromhex(a["bytes"]))
    return out


def infeasible_try_edges(fn):
    """`Err(e)?` / `None?`: the Continue edge after Try::branch of a value that is always built as Err/None can never be taken"""
    fl = Flow(fn)
    out = set()
    for c in fn.calls():
        if not c.is_(r"ops::try_trait::Try>?::branch$") or not c.args or "p" not in c.args[0]:
            continue
        l = c.args[0]["p"][0]
        seen = set()
        always_bad = None
        work = [l]
        while work:
            x = work.pop()
            if x in seen:
                continue
            seen.add(x)
            ds = fl.defs.get(x, [])
            if not ds:
                always_bad = False
            for (bi, si, k, p) in ds:
                if k == "a" and p[1][0] == "agg" and p[1][1] == "adt" and p[1][3] in BAD_VARIANTS:
                    if always_bad is None:
                        always_bad = True
                elif k == "a" and p[1][0] == "use" and "p" in p[1][1] and len(p[1][1]["p"]) == 1:
                    work.append(p[1][1]["p"][0])
                elif k == "call" and PASS_THROUGH.search(p.name) and p.args and "p" in p.args[0]:
                    work.append(p.args[0]["p"][0])
                else:
                    always_bad = False
        if always_bad:
            out |= fl.result_edges(c)["good"]
    return out


def comparisons(fn, skip_debug=True):
    """all ordering comparisons of fn: dict(block, idx, op, a, b, res, macros)"""
    out = []
    for bi, si, pl, rv, ln, mc in fn.assigns():
        if rv[0] == "bin" and rv[1] in ("Lt", "Le", "Gt", "Ge", "Eq", "Ne"):
            if skip_debug and any(m.startswith("debug_assert") for m in mc):
                continue
            out.append({"block": bi, "idx": si, "op": rv[1], "a": rv[2], "b": rv[3], "res": pl[0], "line": ln, "macros": mc})
    return out


def bool_switch_edges(fn, block, local):
    """(true_edges, false_edges) of the switch terminating `block` when it switches on `local`"""
    t = fn.term(block)
    if t[0] != "switch" or "p" not in t[1] or t[1]["p"] != [local]:
        return None
    te, fe = set(), set()
    zero_targets = [tgt for v, tgt in t[2] if v == 0]
    if zero_targets:
        for z in zero_targets:
            fe.add((block, z))
        te.add((block, t[3]))
        for v, tgt in t[2]:
            if v != 0:
                te.add((block, tgt))
    else:
        for v, tgt in t[2]:
            te.add((block, tgt))
        fe.add((block, t[3]))
    return te, fe


def upper_bounded_edges(fn, cmp, var_side):
    """edges leaving the comparison's block on which the operand on `var_side` ('a'|'b') is known to be
    <= (or <) the other operand"""
    e = bool_switch_edges(fn, cmp["block"], cmp["res"])
    if e is None:
        return None
    te, fe = e
    op = cmp["op"]
    if var_side == "b":
        op = {"Lt": "Gt", "Le": "Ge", "Gt": "Lt", "Ge": "Le"}.get(op, op)
    if op in ("Lt", "Le"):
        return te
    if op in ("Gt", "Ge"):
        return fe
    return None


def control_switches(fn, block):
    """switch blocks that decide whether `block` is reached: the block is reachable from some but not all successors of the switch (back
    edges of the innermost loop around `block` are not followed, so `reached in a later iteration` does not count)."""
    lps = [l for l in fn.loops() if block in l["body"]]
    hdr = {min(lps, key=lambda l: len(l["body"]))["header"]} if lps else set()
    out = []
    for b in sorted(fn.reachable_blocks()):
        t = fn.term(b)
        if t[0] != "switch":
            continue
        succ = [x for x in fn.succs(b) if fn.term(x)[0] != "unreachable" or fn.stmts(x)]   # the `otherwise` arm of an exhaustive match
        r = [x == block or block in fn.reach_from(x, avoid=hdr - {x}) for x in succ]
        if any(r) and not all(r) and (b == 0 or b in fn.reach_from(0)):
            out.append(b)
    return out
