"""LIN: linear-expression abstraction of integer operands over symbolic atoms.

An operand is evaluated backwards through copies, casts, checked/unchecked Add/Sub, multiplication by constants and `len()` calls into
  sum(coef * atom) + const
Atoms are: ('len', key) - the length of the slice-like value identified by `key` (its roots in terms of parameters / named bindings and field
projections), ('val', key) - an integer read from a place, ('opaque', local) - anything not understood.  Lengths of sub-slices are expanded:
len(x[a..]) = len(x) - a, len(x[..b]) = b, len(x[a..b]) = b - a.  Two expressions are equal for all inputs if their normal forms are equal.
This is an abstract domain (no paths, no solver); it is exact for the straight-line length arithmetic it is used on and answers `unknown`
(an opaque atom) otherwise."""
import re
from .flow import Flow

PASS = re.compile(r"Deref>::deref$|DerefMut>::deref_mut$|Deref(Mut)? for .*>::deref(_mut)?$|ops::deref::Deref(Mut)?::deref(_mut)?$|::as_ref$|::as_bstr$|::as_bytes$|::borrow$|::as_slice$|::as_mut$|convert::From<.*>>::from$|convert::Into<.*>>::into$|::to_owned$|clone::Clone>::clone$")
LEN = re.compile(r"::len$")
INDEX = re.compile(r"Index<.*>>::index$|::index$|::get_unchecked$")


class Lin:
    def __init__(self, terms=None, const=0):
        self.t = {k: v for k, v in (terms or {}).items() if v != 0}
        self.c = const

    @staticmethod
    def atom(a):
        return Lin({a: 1}, 0)

    def __add__(self, o):
        t = dict(self.t)
        for k, v in o.t.items():
            t[k] = t.get(k, 0) + v
        return Lin(t, self.c + o.c)

    def __neg__(self):
        return Lin({k: -v for k, v in self.t.items()}, -self.c)

    def __sub__(self, o):
        return self + (-o)

    def scale(self, n):
        return Lin({k: v * n for k, v in self.t.items()}, self.c * n)

    def is_const(self):
        return not self.t

    def opaque(self):
        return any(k[0] == "opaque" for k in self.t)

    def __eq__(self, o):
        return self.t == o.t and self.c == o.c

    def __repr__(self):
        def nm(k):
            if k[0] == "len":
                return "len(%s)" % k[2]
            if k[0] == "val":
                return k[2]
            if k[0] == "pos":
                return "pos(%s)" % k[2]
            return "?%s" % (k[1],)
        parts = ["%s%s" % ("" if v == 1 else "-" if v == -1 else "%d*" % v, nm(k)) for k, v in sorted(self.t.items(), key=lambda kv: str(kv[0]))]
        if self.c or not parts:
            parts.append(str(self.c))
        return " + ".join(parts).replace("+ -", "- ")


class Evaluator:
    def __init__(self, fn):
        self.fn = fn
        self.fl = Flow(fn)
        self.calls_by_dest = {}
        for c in fn.calls():
            if c.dest and len(c.dest) == 1:
                self.calls_by_dest.setdefault(c.dest[0], []).append(c)

    # ---- helpers
    def _defs(self, l):
        return [(bi, rv) for bi, si, pl, rv, ln, mc in self.fn.assigns() if pl == [l]]

    def _key(self, op):
        rs = set()
        for r in self.fl.roots(op, stop_named=False, through_calls=False):
            if r[0] == "arg":
                rs.add(("arg", r[1], r[2]))
            elif r[0] == "var":
                rs.add(("var", r[1], r[3]))
        if not rs:
            return None
        def show(r):
            nm = self.fn.local_name(r[1]) or "_%d" % r[1]
            return nm + "".join(x for x in r[2] if not x.startswith("as "))
        return (frozenset(rs), "|".join(sorted(show(r) for r in rs)))

    def _through(self, op, depth=0):
        """follow pass-through calls (deref, as_ref, ...) and copies to the underlying operand"""
        while depth < 12 and "p" in op:
            l = op["p"][0]
            proj = [x for x in op["p"][1:] if x != "*"]
            cs = self.calls_by_dest.get(l, [])
            ds = self._defs(l)
            if proj:
                # field of a locally built tuple: continue with the stored operand
                if len(proj) == 1 and proj[0][1:].isdigit() and len(ds) == 1 and not cs and ds[0][1][0] == "agg" and ds[0][1][1] == "tuple" and int(proj[0][1:]) < len(ds[0][1][4]):
                    op = ds[0][1][4][int(proj[0][1:])]
                    depth += 1
                    continue
                return op
            if len(cs) == 1 and not ds and cs[0].is_(PASS.pattern) and cs[0].args:
                op = cs[0].args[0]
            elif len(ds) == 1 and not cs and ds[0][1][0] in ("use", "cast"):
                op = ds[0][1][1] if ds[0][1][0] == "use" else ds[0][1][2]
            elif len(ds) == 1 and not cs and ds[0][1][0] == "ref":
                op = {"p": ds[0][1][2]}
            else:
                return op
            depth += 1
        return op

    # ---- lengths
    def length(self, op, depth=0):
        self._nest = getattr(self, "_nest", 0) + 1
        try:
            if self._nest > 30:
                return Lin.atom(("opaque", "deep"))
            return self._length(op, depth)
        finally:
            self._nest -= 1

    def _length(self, op, depth=0):
        op = self._through(op)
        if "p" in op and not [x for x in op["p"][1:] if x != "*"]:
            # a fixed-size array (or a reference to one): the length is in the type
            m_ = re.match(r"^(?:&(?:'\w+ )?(?:mut )?)*\[[^;\[\]]+; (\d+)\]$", self.fn.locals[op["p"][0]])
            if m_:
                return Lin(None, int(m_.group(1)))
        if "p" in op and len([x for x in op["p"][1:] if x != "*"]) == 0 and depth < 8:
            l = op["p"][0]
            cs = self.calls_by_dest.get(l, [])
            if len(cs) == 1 and not self._defs(l) and cs[0].is_(INDEX.pattern) and len(cs[0].args) == 2:
                base, rng = cs[0].args
                r = self._range(rng)
                if r is not None:
                    kind, a, b = r
                    if kind == "RangeFrom":
                        return self.length(base, depth + 1) - a
                    if kind == "RangeTo":
                        return b
                    if kind == "Range":
                        return b - a
                    if kind == "RangeFull":
                        return self.length(base, depth + 1)
        # the payload of `x.get(range)` (possibly through ok_or/ok_or_else/?): a sub-slice whose length is given by the range
        if "p" in op and depth < 8:
            src = self._payload_source(op)
            if src is not None and src.is_(r"\[T\]>::get(_mut)?$|::get(_mut)?$") and len(src.args) == 2 and "p" in src.args[1] and isinstance(src.args[1]["p"][0], int) \
                    and "Range" in self.fn.locals[src.args[1]["p"][0]]:
                r = self._range(src.args[1])
                if r is not None:
                    kind, a, b = r
                    if kind == "RangeTo":
                        return b
                    if kind == "Range":
                        return b - a
                    if kind == "RangeFrom":
                        return self.length(src.args[0], depth + 1) - a
                    if kind == "RangeFull":
                        return self.length(src.args[0], depth + 1)
        k = self._key(op)
        if k is None:
            if "p" in op and len(self._defs(op["p"][0])) + len(self.calls_by_dest.get(op["p"][0], [])) <= 1:
                # a single-assignment local (or a field of one): its length is a stable symbol
                pl = tuple(x for x in op["p"] if x != "*")
                return Lin.atom(("len", frozenset({("local",) + pl}), "_%s" % "".join(str(x) for x in pl)))
            return Lin.atom(("opaque", str(op)))
        return Lin.atom(("len", k[0], k[1]))

    def _payload_source(self, op, depth=0):
        """the call whose Some/Ok payload `op` is: follows `as Some/.0`, `as Ok/.0`, `as Continue/.0` projections, copies, and the adaptors
        that keep the payload (Try::branch, ok_or, ok_or_else, map_err, Option::ok_or...)"""
        KEEP = r"Try>::branch$|::ok_or$|::ok_or_else$|::map_err$|::ok$|::as_ref$|::as_deref$|::copied$|::cloned$"
        while depth < 10 and "p" in op and isinstance(op["p"][0], int):
            l = op["p"][0]
            proj = [x for x in op["p"][1:] if x != "*"]
            ds, cs = self._defs(l), self.calls_by_dest.get(l, [])
            if proj and all(isinstance(x, str) and (x.startswith("as ") or x == ".0") for x in proj):
                if len(cs) == 1 and not ds:
                    c = cs[0]
                    if c.is_(KEEP) and c.args:
                        op = {"p": list(c.args[0]["p"]) + ["as Some", ".0"]} if "p" in c.args[0] else {}
                    else:
                        return c
                elif len(ds) == 1 and not cs and ds[0][1][0] == "use" and "p" in ds[0][1][1]:
                    op = {"p": list(ds[0][1][1]["p"]) + proj}
                else:
                    return None
            elif not proj and len(ds) == 1 and not cs and ds[0][1][0] == "use" and "p" in ds[0][1][1]:
                op = ds[0][1][1]
            else:
                return None
            depth += 1
        return None

    def _range(self, op):
        op = self._through(op)
        if "p" not in op:
            return None
        ds = self._defs(op["p"][0])
        if len(ds) != 1 or ds[0][1][0] != "agg" or ds[0][1][1] != "adt":
            return None
        rv = ds[0][1]
        kind = rv[2].split("::")[-1]
        ops = rv[4]
        if kind == "RangeFrom" and len(ops) == 1:
            return kind, self.value(ops[0]), None
        if kind == "RangeTo" and len(ops) == 1:
            return kind, None, self.value(ops[0])
        if kind == "Range" and len(ops) == 2:
            return kind, self.value(ops[0]), self.value(ops[1])
        if kind == "RangeFull":
            return kind, None, None
        return None

    # ---- integer values
    def value(self, op, depth=0):
        self._nest = getattr(self, "_nest", 0) + 1
        try:
            if self._nest > 30:
                return Lin.atom(("opaque", "deep"))
            return self._value(op, depth)
        finally:
            self._nest -= 1

    def _value(self, op, depth=0):
        if "p" not in op:
            if isinstance(op.get("v"), int):
                return Lin({}, op["v"])
            return Lin.atom(("opaque", str(op)))
        if depth > 24:
            return Lin.atom(("opaque", tuple(op["p"])))
        l = op["p"][0]
        proj = [x for x in op["p"][1:] if x != "*"]
        ds = self._defs(l)
        cs = self.calls_by_dest.get(l, [])
        if 1 <= l <= self.fn.argc or (not ds and not cs):
            k = self._key(op)
            return Lin.atom(("val", k[0], k[1])) if k else Lin.atom(("opaque", tuple(op["p"])))
        if proj == [".0"] and len(ds) == 1 and ds[0][1][0] == "bin" and ds[0][1][1].endswith("WithOverflow"):
            return self._bin(ds[0][1], depth)
        if proj:
            if len(cs) == 1 and not ds and proj in (["as Some", ".0"], ["as Ok", ".0"], ["as Continue", ".0"]):
                pos = self._search_atom(cs[0])
                if pos is not None:
                    return pos
            if not cs and len(ds) == 1 and proj in (["as Some", ".0"], ["as Ok", ".0"], ["as Continue", ".0"]) and ds[0][1][0] == "use" and "p" in ds[0][1][1] and len(ds[0][1][1]["p"]) == 1:
                return self.value({"p": ds[0][1][1]["p"] + proj}, depth + 1)
            k = self._key(op)
            return Lin.atom(("val", k[0], k[1])) if k else Lin.atom(("opaque", tuple(op["p"])))
        if len(cs) == 1 and not ds:
            c = cs[0]
            if c.is_(LEN.pattern) and c.args:
                return self.length(c.args[0])
            if c.is_(PASS.pattern) and c.args:
                return self.value(c.args[0], depth + 1)
            return Lin.atom(("opaque", "%s@%d" % (c.name.split("::")[-1], c.block)))
        if len(ds) == 1 and not cs:
            rv = ds[0][1]
            if rv[0] == "use":
                return self.value(rv[1], depth + 1)
            if rv[0] == "cast":
                return self.value(rv[2], depth + 1)
            if rv[0] == "bin":
                return self._bin(rv, depth)
            if rv[0] == "ref":
                return self.value({"p": rv[2]}, depth + 1)
            if rv[0] == "un" and rv[1] == "PtrMetadata":
                return self.length(rv[2])
            if rv[0] == "len":
                return self.length({"p": rv[1]} if isinstance(rv[1], list) else rv[1])
        return Lin.atom(("opaque", l))

    SEARCH = r"::position$|::find_byte$|::find$|::find_byteset$|::find_not_byteset$|::rfind_byte$|::rfind$|::rposition$|memchr::memchr\w*$|::find_char$|::rfind_byteset$"

    def _search_atom(self, c):
        """the index returned by a search on slice B: atom ('pos', block, text) with the fact len(B) - pos - 1 >= 0 recorded in self.pos_facts"""
        if not c.is_(self.SEARCH) or not c.args:
            return None
        base = c.args[0]
        # position() is called on an iterator: walk back to the slice it iterates
        b2 = self._through(base)
        for _ in range(4):
            if "p" in b2:
                cs = self.calls_by_dest.get(b2["p"][0], [])
                if len(cs) == 1 and cs[0].is_(r"::iter$|::into_iter$|::bytes$|::iter_mut$|::enumerate$|::copied$|::cloned$") and cs[0].args:
                    b2 = self._through(cs[0].args[0]); continue
            break
        ln = self.length(b2)
        if ln.opaque():
            return None
        a = ("pos", c.block, "%s@%d" % (c.name.split("::")[-1], c.line))
        if not hasattr(self, "pos_facts"):
            self.pos_facts = []
        atom = Lin.atom(a)
        self.pos_facts.append(ln - atom - Lin({}, 1))
        return atom

    def _bin(self, rv, depth):
        op = rv[1].replace("WithOverflow", "").replace("Unchecked", "")
        a, b = self.value(rv[2], depth + 1), self.value(rv[3], depth + 1)
        if op == "Add":
            return a + b
        if op == "Sub":
            return a - b
        if op == "Mul" and b.is_const():
            return a.scale(b.c)
        if op == "Mul" and a.is_const():
            return b.scale(a.c)
        return Lin.atom(("opaque", str(rv[1:4])))
