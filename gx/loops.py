"""LP (loops) — every non-`for` loop must be able to change its own exit condition on every path.

state locals : locals in the backward slice (inside the loop) of the operands deciding the loop's exits that are
               loop-carried (defined outside the loop / parameters) or whose address is taken mutably inside the loop
progress     : every path header -> back edge contains a write to a state local (assignment, or `&mut` of it created
               in the loop and handed to a call)
exempt       : `for` loops (desugared Iterator::next on the header path), loops whose exit depends on an external
               agent (atomics, channels, clocks, locks, I/O calls that take the reader by &mut are state writes anyway)
"""
import re
from .facts import rvalue_operands, rvalue_places

EXTERNAL = re.compile(r"(atomic::Atomic\w*(::<[^>]*>)?::(load|swap|fetch_\w+|compare_exchange\w*)$|::recv(_timeout)?$|::try_recv$|Instant::(now|elapsed)$|"
                      r"::try_lock$|::lock$|thread::(sleep|park|yield_now)|::try_wait$|::wait$|::is_finished$|::poll$|Iterator::next$|::next_back$|::try_next$)")


def _block_line(fn, b):
    for st in fn.stmts(b):
        if st[0] == "a":
            return st[3] if len(st) > 3 and isinstance(st[3], int) else 0
    t = fn.term(b)
    return t[-1] if isinstance(t[-1], int) else 0


def _place_bases(pl):
    out = {pl[0]}
    for x in pl[1:]:
        if x.startswith("[_"):
            out.add(int(x[2:-1]))
    return out


def analyse_loop(fn, loop):
    H, body = loop["header"], loop["body"]
    # for loops
    for b in body:
        t = fn.term(b)
        if t[0] == "call" and len(t) > 7 and any(m == "d:ForLoop" for m in t[7]) and re.search(r"Iterator::next$", t[1].get("path", "")):
            if fn.dominates(b, loop["backedges"][0][0]) or b == H:
                return {"ok": True, "kind": "for", "line": t[6]}
    exits = [(s, d) for (s, d) in loop["exits"] if not fn.is_cleanup(d)]
    line = fn.term(H)[-1] if isinstance(fn.term(H)[-1], int) else None
    for x in fn.term(H)[::-1]:
        if isinstance(x, int):
            line = x
            break
    # defs inside the loop
    defs_in = {}
    for b in body:
        for s in fn.stmts(b):
            if s[0] == "a":
                defs_in.setdefault(s[1][0], []).append((b, "a", s))
        t = fn.term(b)
        if t[0] == "call":
            defs_in.setdefault(t[3][0], []).append((b, "c", t))
    defs_all = fn.defs()
    ops = set()
    for (s, d) in exits:
        t = fn.term(s)
        if t[0] == "switch" and "p" in t[1]:
            ops |= _place_bases(t[1]["p"])
        elif t[0] == "call":
            # exit through a call's normal edge: the callee decides
            for a in t[2]:
                if "p" in a:
                    ops |= _place_bases(a["p"])
    if not exits:
        return {"ok": False, "kind": "no-exit", "line": line, "reason": "loop has no exit edge (only returns/panics inside calls can leave it)" if not _has_return(fn, body) else "ok"} if not _has_return(fn, body) else {"ok": True, "kind": "return-only", "line": line}
    slice_ = set()
    work = list(ops)
    external = False
    while work:
        l = work.pop()
        if l in slice_:
            continue
        slice_.add(l)
        for (b, k, x) in defs_in.get(l, []):
            if k == "a":
                rv = x[2]
                for p in rvalue_places(rv):
                    work.extend(_place_bases(p))
            else:
                nm = x[1].get("res") or x[1].get("path", "")
                if EXTERNAL.search(nm) or EXTERNAL.search(x[1].get("path", "")):
                    external = True
                for a in x[2]:
                    if "p" in a:
                        work.extend(_place_bases(a["p"]))
    # state locals and their modification blocks
    mod_blocks = set()
    state = set()
    mut_borrow = {}   # temp local -> base local it mutably borrows (inside loop)
    for b in body:
        for s in fn.stmts(b):
            if s[0] == "a" and s[2][0] in ("ref", "rawptr") and (s[2][1] == "mut" or "Mut" in str(s[2][1])):
                mut_borrow[s[1][0]] = s[2][2][0]
    def base_of(l, depth=0):
        seen = set()
        while l in mut_borrow and l not in seen:
            seen.add(l)
            l = mut_borrow[l]
        return l
    for b in body:
        for s in fn.stmts(b):
            if s[0] != "a":
                continue
            tgt = s[1][0]
            carried = tgt <= fn.argc and tgt >= 1 or any(bb not in body for (bb, si, kk, pp) in defs_all.get(tgt, []))
            through_ptr = len(s[1]) > 1 and s[1][1] == "*"
            if tgt in slice_ and (carried or through_ptr):
                state.add(tgt)
                mod_blocks.add(b)
            elif through_ptr and base_of(tgt) in slice_:
                state.add(base_of(tgt))
                mod_blocks.add(b)
        t = fn.term(b)
        if t[0] == "call":
            for a in t[2]:
                if "p" in a and a["p"][0] in mut_borrow:
                    base = base_of(a["p"][0])
                    if base in slice_:
                        state.add(base)
                        mod_blocks.add(b)
                elif "p" in a and a.get("mv") and a["p"][0] in slice_ and len(a["p"]) == 1:
                    # by-value move of a carried state local into a call that returns its successor (x = f(x))
                    l = a["p"][0]
                    if any(bb not in body for (bb, si, kk, pp) in defs_all.get(l, [])) and t[3][0] in slice_:
                        state.add(l)
                        mod_blocks.add(b)
                elif "p" in a and a["p"][0] in slice_ and fn.locals[a["p"][0]].startswith("&mut "):
                    state.add(a["p"][0])
                    mod_blocks.add(b)
            d = t[3][0]
            if d in slice_ and (1 <= d <= fn.argc or any(bb not in body for (bb, si, kk, pp) in defs_all.get(d, []))):
                state.add(d)
                mod_blocks.add(b)
    if external:
        # a retry loop bounded by a budget iterator (back-off durations, attempts) must draw from it on EVERY iteration: a path from the header
        # back to it that bypasses the `next()` whose outcome decides the exit can spin forever on an external condition that never changes
        budget = [b for b in body if fn.term(b)[0] == "call" and re.search(r"Iterator::next$|::next$", fn.term(b)[1].get("res") or fn.term(b)[1].get("path", ""))
                  and fn.term(b)[3] and fn.term(b)[3][0] in slice_]
        waits = any(fn.term(b)[0] == "call" and re.search(r"thread::(functions::)?(sleep|park\w*|yield_now)$|::try_lock$", fn.term(b)[1].get("res") or fn.term(b)[1].get("path", "")) for b in body) or \
            any(c.block in body and re.search(r"thread::(functions::)?(sleep|park\w*|yield_now)$|::try_lock$", c.name) for c in fn.calls())
        if budget and waits:
            srcs_ = {s_ for (s_, h_) in loop["backedges"]}
            seen_, st_ = {H}, [H]
            bypass = None
            while st_:
                b = st_.pop()
                if b in srcs_ and b not in budget:
                    bypass = b
                    break
                for s_ in fn.succs(b):
                    if s_ in body and s_ not in seen_ and s_ not in budget and s_ != H:
                        seen_.add(s_); st_.append(s_)
            if bypass is not None and H not in budget:
                return {"ok": False, "kind": "external-budget-bypassed", "line": line, "state": sorted(state),
                        "reason": "a path from the loop header (line %d) back to it (via line %d) does not draw from the iterator that bounds the retries" % (line, _block_line(fn, bypass))}
        return {"ok": True, "kind": "external", "line": line, "state": sorted(state)}
    # path from H to a back edge source avoiding mod_blocks
    srcs = {s for (s, h) in loop["backedges"]}
    if H in mod_blocks:
        return {"ok": True, "kind": "progress", "line": line, "state": sorted(state)}
    seen = {H}
    st = [H]
    bad = None
    while st:
        b = st.pop()
        if b in srcs and b not in mod_blocks:
            bad = b
            break
        for s2 in fn.succs(b):
            if s2 in body and s2 not in seen and s2 not in mod_blocks:
                seen.add(s2)
                st.append(s2)
            elif s2 == H and b not in mod_blocks and b in srcs:
                bad = b
    if bad is None:
        return {"ok": True, "kind": "progress", "line": line, "state": sorted(state)}
    names = [fn.local_name(l) or "_%d" % l for l in sorted(state)] or [fn.local_name(l) or "_%d" % l for l in sorted(ops)]
    bl = None
    for x in fn.term(bad)[::-1]:
        if isinstance(x, int):
            bl = x
            break
    return {"ok": False, "kind": "stuck", "line": line, "back_line": bl, "state": names,
            "reason": "a path from the loop header (line %s) back to it (via line %s) writes none of the values its exit depends on (%s)" % (line, bl, ", ".join(names))}


def _has_return(fn, body):
    for b in body:
        for s in fn.succs(b):
            if s not in body:
                return True
    return False


def check_fn(fn):
    """[(loop, result)] for all natural loops of fn"""
    return [(l, analyse_loop(fn, l)) for l in fn.loops()]
