"""LP — loop progress and bounded recursion over MIR facts."""
import re
from collections import defaultdict
from .facts import rvalue_operands, rvalue_places
from .flow import Flow, comparisons, bool_switch_edges


def _plus_one_base(fn, fl, op):
    """if operand `op` is X + 1 (possibly via the overflow-checked tuple) return the roots of X"""
    if "p" not in op:
        return None
    seen = set()
    work = [op["p"][0]]
    while work:
        l = work.pop()
        if l in seen:
            continue
        seen.add(l)
        for (bi, si, kind, payload) in fl.defs.get(l, []):
            if kind != "a":
                continue
            pl, rv = payload
            if rv[0] == "use" and "p" in rv[1]:
                work.append(rv[1]["p"][0])
            elif rv[0] == "bin" and rv[1] in ("Add", "AddWithOverflow", "AddUnchecked"):
                a, b = rv[2], rv[3]
                for x, y in ((a, b), (b, a)):
                    if "p" in x and y.get("v") == 1:
                        return fl.roots(x, stop_named=False)
    return None


def _closure_upvar_params(db, fn, fl, clo):
    """map upvar field name ('.i') of closure `clo` -> parent param index, from the closure aggregate in fn"""
    out = {}
    blocks = []
    for bi, si, pl, rv, ln, mc in fn.assigns():
        if rv[0] == "agg" and rv[1] == "closure" and rv[2] == clo.name:
            blocks.append(bi)
            for i, op in enumerate(rv[4]):
                r = fl.roots(op, stop_named=False)
                ps = {x[1] for x in r if x[0] == "arg" and x[2] == ()}
                if len(r) == 1 and len(ps) == 1:
                    out[".%d" % i] = ps.pop()
    return out, blocks


def bounded_recursion(db, fn):
    """Decide the depth-counter idiom for a directly self-recursive function (recursive calls may sit in
    closures defined in the function).  Returns dict(ok, reason, rec_calls, param, limit, guard_line)."""
    fl = Flow(fn)
    rec = []   # (call, block in fn that must be cut off, depth param)
    problems = []
    for c in fn.calls():
        if fn.name in c.names:
            cand = None
            for i, a in enumerate(c.args):
                r = _plus_one_base(fn, fl, a)
                if r is not None and r == {("arg", i + 1, ())}:
                    cand = i + 1
            if cand is None:
                problems.append("recursive call at line %d passes no `depth + 1` in the depth position" % c.line)
            rec.append((c, c.block, cand))
    for clo in db.closures_of(fn):
        cfl = None
        for c in clo.calls():
            if fn.name in c.names:
                if cfl is None:
                    cfl = Flow(clo)
                    upv, cblocks = _closure_upvar_params(db, fn, fl, clo) if clo.root == fn.name and clo.name.count("{closure#") == 1 else ({}, [])
                cand = None
                for i, a in enumerate(c.args):
                    r = _plus_one_base(clo, cfl, a)
                    if r is not None and len(r) == 1:
                        x = next(iter(r))
                        if x[0] == "arg" and x[1] == 1 and len(x[2]) == 1 and upv.get(x[2][0]) == i + 1:
                            cand = i + 1
                if cand is None or not cblocks:
                    problems.append("recursive call in closure at line %d passes no `depth + 1` of the captured depth" % c.line)
                for b in cblocks or [0]:
                    rec.append((c, b, cand))
    if not rec:
        return {"ok": True, "reason": "not recursive", "rec_calls": 0}
    nrec = len({(c.fn.name, c.block) for c, _, _ in rec})
    if problems:
        return {"ok": False, "reason": "; ".join(problems), "rec_calls": nrec, "line": rec[0][0].line}
    params = {p for _, _, p in rec}
    if len(params) != 1:
        return {"ok": False, "reason": "recursive calls disagree on the depth parameter", "rec_calls": nrec, "line": rec[0][0].line}
    p = params.pop()
    rec_blocks = {b for _, b, _ in rec}
    for cmp in comparisons(fn):
        for side, other in (("a", "b"), ("b", "a")):
            x, y = cmp[side], cmp[other]
            if "p" in x and fl.roots(x, stop_named=False) == {("arg", p, ())} and "p" not in y and isinstance(y.get("v"), int):
                e = bool_switch_edges(fn, cmp["block"], cmp["res"])
                if not e:
                    continue
                te, fe = e
                op = cmp["op"] if side == "a" else {"Lt": "Gt", "Le": "Ge", "Gt": "Lt", "Ge": "Le"}.get(cmp["op"], cmp["op"])
                if op == "Ne":
                    te, fe, op = fe, te, "Eq"
                stop_edges = te if op in ("Eq", "Ge", "Gt") else fe
                cont_edges = fe if op in ("Eq", "Ge", "Gt") else te
                reach_stop = set()
                for (_, t) in stop_edges:
                    reach_stop |= fn.reach_from(t, avoid_edges=cont_edges)
                if rec_blocks & reach_stop:
                    continue
                if not all(fn.dominates(cmp["block"], b) for b in rec_blocks):
                    continue
                if rec_blocks & fn.reach_from(0, avoid_edges=cont_edges):
                    continue
                return {"ok": True, "reason": "depth param _%d compared (%s) with %s (%s) before every recursive call; each call passes depth+1" % (p, op, y.get("v"), y.get("def", "literal")),
                        "rec_calls": nrec, "param": p, "limit": y.get("v"), "op": op, "guard_line": cmp["line"]}
    return {"ok": False, "reason": "no comparison of the depth parameter with a constant cuts off all recursive calls", "rec_calls": nrec, "param": p, "line": rec[0][0].line}


def initial_depth_ok(db, fn, res):
    """all external callers pass a constant depth <= limit (needed when the guard is `==`)"""
    out = []
    for g in db.by_crate[fn.crate]:
        if g is fn or g.root == fn.name:
            continue
        for c in g.calls():
            if fn.name in c.names:
                a = c.args[res["param"] - 1]
                v = a.get("v") if "p" not in a else None
                out.append((g.name, c.line, v, v is not None and v <= res["limit"]))
    return out
