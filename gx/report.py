"""Findings, floors, known findings, evidence files and the exit protocol."""
import json, os, sys, time

VERIF = os.path.dirname(os.path.dirname(os.path.abspath(__file__)))
KNOWN = os.path.join(VERIF, "known_findings.json")


class Check:
    def __init__(self, pid, tier="quick", technique="", explanation=""):
        self.pid = pid
        self.tier = tier
        self.t0 = time.time()
        self.findings = []       # dict(key, msg, where)
        self.obligations = []    # dict(rule, site, ok, detail)
        self.analysed = {}       # free-form counters
        self.samples = []
        self.assumptions = []
        self.trusted = ["rustc nightly front end + MIR construction (gxmir facts)", "cargo feature resolution of `cargo check --workspace`"]
        self.technique = technique
        self.explanation = explanation
        self.notes = []

    # ---- recording ---------------------------------------------------------------------------
    def count(self, name, n=1):
        self.analysed[name] = self.analysed.get(name, 0) + n

    def set(self, name, v):
        self.analysed[name] = v

    def ob(self, rule, site, ok, detail="", where="", key=None):
        """an obligation: a rule instance at a site.  Failed obligations become findings."""
        self.obligations.append({"rule": rule, "site": site, "ok": bool(ok), "detail": detail})
        if not ok:
            self.finding(key or "%s|%s" % (rule, site), "%s: %s %s" % (rule, site, detail), where)
        return ok

    def finding(self, key, msg, where=""):
        for f in self.findings:
            if f["key"] == key:
                return
        self.findings.append({"key": key, "msg": msg, "where": where})

    def floor(self, what, n, minimum):
        """fail closed if fewer rule instances were matched than were confirmed by hand"""
        self.obligations.append({"rule": "floor", "site": what, "ok": n >= minimum, "detail": "matched %d, floor %d" % (n, minimum)})
        if n < minimum:
            self.finding("anchor-lost|%s" % what, "anchor lost: %s matched %d site(s), floor is %d" % (what, n, minimum))

    def anchor_lost(self, what):
        self.obligations.append({"rule": "anchor", "site": what, "ok": False, "detail": "not found"})
        self.finding("anchor-lost|%s" % what, "anchor lost: %s" % what)

    def sample(self, s):
        if len(self.samples) < 12:
            self.samples.append(s)

    # ---- finishing ---------------------------------------------------------------------------
    def finish(self, db=None):
        known = {"known": [], "fixed": []}
        if os.path.exists(KNOWN):
            known = json.load(open(KNOWN))
        kkeys = {(k["property"], k["key"]): k for k in known.get("known", [])}
        new, listed = [], []
        for f in self.findings:
            if (self.pid, f["key"]) in kkeys:
                listed.append((f, kkeys[(self.pid, f["key"])]))
            else:
                new.append(f)
        n_ob = len(self.obligations)
        n_ok = sum(1 for o in self.obligations if o["ok"])
        distinct = len({(o["rule"], o["site"]) for o in self.obligations})
        if db is not None:
            self.analysed.setdefault("crate_units", len(db.crates))
            self.analysed.setdefault("mir_bodies_in_facts", len(db.fns))
            self.analysed.setdefault("facts_tree_hash", db.info.get("tree", "")[:16])
        samples = list(self.samples)
        for o in self.obligations[:8]:
            if len(samples) >= 12:
                break
            samples.append(o)
        if not samples:
            samples = [{"note": "no obligations"}]
        ev = {
            "property_id": self.pid,
            "tier": self.tier,
            "seed": int(os.environ.get("VERIF_SEED", "0") or 0),
            "level": "other",
            "coverage": {
                "explanation": self.explanation,
                "technique": self.technique,
                "obligations": n_ob,
                "discharged": n_ok,
                "evaluations": max(n_ob, 1),
                "distinct_nontrivial": distinct,
                "rule": "one obligation per (rule, site) instance found in the MIR/AST facts of the current tree; distinct = distinct (rule, site) pairs",
                "samples": samples,
                "analysed": self.analysed,
                "checker_cmd": "./check %s --tier %s" % (self.pid, self.tier),
                "trusted_base": self.trusted,
                "known_findings_reported": [k["key"] for _, k in listed],
                "notes": self.notes,
            },
            "assumptions": self.assumptions,
            "wall_s": round(time.time() - self.t0, 2),
            "violations": len(new),
        }
        # GX_EVIDENCE_DIR: where to write evidence when a variant tree (GX_REPO) is analysed while developing rules; the registered
        # commands never set it and always write /verif/evidence
        evdir = os.environ.get("GX_EVIDENCE_DIR", os.path.join(VERIF, "evidence"))
        os.makedirs(evdir, exist_ok=True)
        with open(os.path.join(evdir, self.pid + ".json"), "w") as fh:
            json.dump(ev, fh, indent=1, sort_keys=True)
        print("%s [%s]: %d obligation(s), %d discharged, %d finding(s) (%d listed as known)" % (self.pid, self.tier, n_ob, n_ok, len(self.findings), len(listed)))
        for f, k in listed:
            print("KNOWN-FINDING: property=%s %s" % (self.pid, k.get("what", f["msg"])))
        if new:
            rdir = os.path.join(VERIF, "evidence", "replay")
            os.makedirs(rdir, exist_ok=True)
            rp = os.path.join(rdir, self.pid + ".json")
            with open(rp, "w") as fh:
                json.dump({"property": self.pid, "findings": new}, fh, indent=1)
            for f in new:
                print("  %s  %s  [key=%s]" % (f["where"] or "-", f["msg"], f["key"]))
            print("VIOLATION property=%s replay=%s" % (self.pid, rp))
            return 1
        return 0
