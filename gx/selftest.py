"""Sensitivity self-test (thorough tier): every stored mutant of a property — a realistic, compiling edit that breaks one rule
instance — is applied to a scratch copy of /repo's working tree (outside /repo and /verif), facts are rebuilt for it and the
property's rules must report a finding whose key matches the mutant's expectation.  Variants marked "benign" (behaviour-preserving
refactorings of an anchor) must produce no finding at all.  The scratch copy and its build output
are removed afterwards.  A rule that no longer fires on its own mutant is reported as a broken check."""
import glob, json, os, re, shutil, subprocess, tempfile, time
from . import build, facts, report

VERIF = os.path.dirname(os.path.dirname(os.path.abspath(__file__)))


def mutants_for(pid):
    out = []
    for meta in sorted(glob.glob(os.path.join(VERIF, "selftest", pid, "*.json")) + glob.glob(os.path.join(VERIF, "seeded", "*", "meta.json"))):
        m = json.load(open(meta))
        if m.get("property") != pid and pid not in m.get("also_checked_by", []):
            continue
        if m.get("retired"):
            continue   # made for an earlier tree; superseded by a repair (see meta)
        patch = os.path.join(os.path.dirname(meta), m.get("patch", os.path.basename(meta)[:-5] + ".diff"))
        if not os.path.exists(patch):
            continue
        if m.get("detected_by") is not None and pid not in m.get("detected_by", [pid]):
            continue
        out.append({"name": m.get("name", os.path.basename(os.path.dirname(meta)) + "/" + os.path.basename(patch)), "patch": patch, "expect": m.get("expect", "."), "meta": m})
    return out


def run(pid, mod, chk, max_mutants=None):
    muts = mutants_for(pid)
    chk.set("selftest_mutants", len(muts))
    if not muts:
        chk.notes.append("no stored mutants for this property")
        return
    real_repo, real_cache = build.REPO, build.CACHE
    scratch = tempfile.mkdtemp(prefix="gxst-%s-" % pid, dir="/tmp")
    wt = os.path.join(scratch, "repo")
    try:
        subprocess.run(["git", "-C", real_repo, "worktree", "add", "-q", "--detach", wt, "HEAD"], check=True, stdout=subprocess.PIPE, stderr=subprocess.PIPE)
        d = subprocess.run(["git", "-C", real_repo, "diff", "HEAD"], stdout=subprocess.PIPE, check=True).stdout
        if d.strip():
            subprocess.run(["git", "-C", wt, "apply", "--whitespace=nowarn"], input=d, check=True)
        # warm start: reuse the compiled third-party dependencies of the real cache (workspace members are recompiled through the driver
        # because their paths differ; facts are never copied)
        for cfg in os.listdir(real_cache) if os.path.isdir(real_cache) else []:
            src = os.path.join(real_cache, cfg, "target")
            if os.path.isdir(src):
                os.makedirs(os.path.join(scratch, "cache", cfg), exist_ok=True)
                subprocess.run(["cp", "-a", "--reflink=auto", src, os.path.join(scratch, "cache", cfg, "target")], check=False)
        build.set_repo(wt, os.path.join(scratch, "cache"))
        for m in muts[:max_mutants]:
            t0 = time.time()
            r = subprocess.run(["git", "-C", wt, "apply", "--whitespace=nowarn", m["patch"]], stdout=subprocess.PIPE, stderr=subprocess.STDOUT, text=True)
            if r.returncode != 0:
                # the tree under analysis differs from the one the mutant was written for (a later repair, or a change that is being evaluated):
                # that says nothing about the property - the mutant is skipped and named in the evidence, it is not a finding
                chk.count("selftest_mutants_skipped_stale")
                chk.notes.append("self-test mutant skipped, it no longer applies to the current tree: %s" % m["name"])
                chk.sample({"mutant": m["name"], "skipped": "does not apply to the current tree"})
                continue
            try:
                try:
                    db = facts.load("ws")
                except SystemExit:
                    chk.count("selftest_mutants_skipped_build")
                    chk.notes.append("self-test mutant skipped, it does not compile on the current tree: %s" % m["name"])
                    chk.sample({"mutant": m["name"], "skipped": "does not compile on the current tree"})
                    continue
                c2 = report.Check(pid, "selftest")
                try:
                    mod.run(db, c2)
                except facts.AnchorLost as e:
                    c2.anchor_lost(str(e))
                known = {}
                if os.path.exists(report.KNOWN):
                    known = {(k["property"], k["key"]) for k in json.load(open(report.KNOWN)).get("known", [])}
                keys = [f["key"] for f in c2.findings if (pid, f["key"]) not in known]
                if m["meta"].get("benign"):
                    chk.ob("self-test-benign-variant-silent", m["name"], not keys, "behaviour-preserving variant must not be reported, got %s" % keys[:4], key="selftest-noisy|%s" % m["name"])
                    chk.sample({"benign_variant": m["name"], "reported": keys[:2], "seconds": round(time.time() - t0, 1)})
                    continue
                hit = [k for k in keys if re.search(m["expect"], k)]
                chk.ob("self-test-mutant-detected", m["name"], bool(hit), "expected a finding matching /%s/, got %s" % (m["expect"], keys[:4]), key="selftest-blind|%s" % m["name"])
                chk.sample({"mutant": m["name"], "reported": hit[:2], "seconds": round(time.time() - t0, 1)})
            finally:
                subprocess.run(["git", "-C", wt, "checkout", "-q", "--", "."], check=False)
                subprocess.run(["git", "-C", wt, "clean", "-fdq"], check=False)
                if d.strip():
                    subprocess.run(["git", "-C", wt, "apply", "--whitespace=nowarn"], input=d, check=False)
    finally:
        build.set_repo(real_repo, real_cache)
        subprocess.run(["git", "-C", real_repo, "worktree", "remove", "--force", wt], stdout=subprocess.PIPE, stderr=subprocess.PIPE)
        shutil.rmtree(scratch, ignore_errors=True)
        subprocess.run(["git", "-C", real_repo, "worktree", "prune"], stdout=subprocess.PIPE, stderr=subprocess.PIPE)
