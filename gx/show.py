"""python3 -m gx.show <regex> [-c crate] : compact MIR listing of matching functions (development aid)"""
import sys, re
from . import facts

def pl(p):
    return "_%s%s" % (p[0], "".join(x if x.startswith(".") or x.startswith("[") else ("*" if x=="*" else "("+x+")") for x in p[1:]))
def op(o):
    if "p" in o: return ("mv " if o.get("mv") else "") + pl(o["p"])
    if "fn" in o: return "fn:"+short(o["fn"])
    if "def" in o: return "%s=%s" % (short(o["def"]), o.get("v", o.get("bytes","?")))
    if "v" in o: return "%s%s" % (o["v"], "" if o["ty"] in ("usize","bool","isize") else o["ty"])
    if "bytes" in o:
        try: return repr(bytes.fromhex(o["bytes"]))
        except Exception: return o["bytes"]
    if "refv" in o: return "&%s" % o["refv"]
    return "const<%s>" % o.get("ty","?")[:40]
def short(n):
    n = re.sub(r"<[^<>]*>", "", n); n = re.sub(r"<[^<>]*>", "", n)
    parts = n.split("::")
    return "::".join(parts[-2:])
def rv(r):
    k=r[0]
    if k=="use": return op(r[1])
    if k=="ref": return "&%s%s" % ("mut " if r[1]=="mut" else "", pl(r[2]))
    if k=="rawptr": return "&raw %s" % pl(r[2])
    if k=="bin": return "%s(%s, %s)" % (r[1], op(r[2]), op(r[3]))
    if k=="un": return "%s(%s)" % (r[1], op(r[2]))
    if k=="cast": return "%s as %s" % (op(r[2]), r[3][:30])
    if k=="discr": return "discr(%s)" % pl(r[1])
    if k=="agg": return "%s %s::%s{%s}" % (r[1], short(r[2]), r[3], ", ".join(op(x) for x in r[4]))
    return k
def show(f, out=sys.stdout):
    out.write("fn %s  [%s:%d] argc=%d\n" % (f.name, f.file, f.line, f.argc))
    out.write("  names: %s\n" % ", ".join("_%s=%s" % (k,v) for k,v in f.names.items() if k.isdigit()))
    for i,b in enumerate(f.blocks):
        if b.get("cu"): continue
        out.write(" bb%d:\n" % i)
        for s in b["s"]:
            m = (" !" + ",".join(s[4])) if len(s)>4 and s[0]=="a" else ""
            if s[0]=="a": out.write("    %s = %s   @%s%s\n" % (pl(s[1]), rv(s[2]), s[3], m))
            else: out.write("    %s\n" % str(s)[:100])
        t=b["t"]; k=t[0]
        if k=="call":
            m = (" !" + ",".join(t[7])) if len(t)>7 else ""
            c=t[1]; nm = short(c.get("res") or c.get("path") or "<ind>")
            fl = "".join(x for x in ("?" if c.get("unres") else "", "dyn" if c.get("virt") else ""))
            out.write("    %s = call %s%s(%s) -> bb%s   @%s%s\n" % (pl(t[3]), nm, fl, ", ".join(op(a) for a in t[2]), t[4], t[6], m))
        elif k=="switch": out.write("    switch %s [%s] else bb%s\n" % (op(t[1]), ", ".join("%s->bb%s"%(v,x) for v,x in t[2]), t[3]))
        elif k=="goto": out.write("    goto bb%s\n" % t[1])
        elif k=="drop": out.write("    drop %s -> bb%s\n" % (pl(t[1]), t[2]))
        elif k=="assert": out.write("    assert(%s==%s, %s) -> bb%s\n" % (op(t[1]), t[2], t[3], t[4]))
        else: out.write("    %s\n" % k)

if __name__=="__main__":
    db = facts.load("ws")
    pat = sys.argv[1]
    crate = sys.argv[sys.argv.index("-c")+1] if "-c" in sys.argv else None
    fs = db.find(pat, crate)
    if "-l" in sys.argv:
        for f in fs: print(f.name, f.file, f.line, len(f.blocks))
    else:
        for f in fs[:int(sys.argv[sys.argv.index("-n")+1]) if "-n" in sys.argv else 3]:
            show(f)
