"""TAB — extraction of match/switch tables and constants from MIR facts."""
import re
from .flow import Flow


def switches(fn, min_arms=2):
    """integer switches of fn: list of dict(block, op, arms={val:target}, otherwise, ty)"""
    out = []
    for bi in sorted(fn.reachable_blocks()):
        t = fn.term(bi)
        if t[0] == "switch" and len(t[2]) >= min_arms:
            out.append({"block": bi, "op": t[1], "arms": {v: tgt for v, tgt in t[2]}, "otherwise": t[3], "ty": t[4]})
    return out


def straight_line(fn, block, limit=12):
    """blocks reached from `block` following unique successors (a straight-line chain)"""
    out = [block]
    seen = {block}
    b = block
    for _ in range(limit):
        s = fn.succs(b)
        if len(s) != 1 or s[0] in seen:
            break
        b = s[0]
        seen.add(b)
        out.append(b)
    return out


def const_call_arg_after(fn, block, call_pat, arg_index, limit=12):
    """first call matching call_pat on the straight-line chain from block: constant value(s) of its arg"""
    fl = Flow(fn)
    for b in straight_line(fn, block, limit):
        t = fn.term(b)
        if t[0] == "call":
            nm = t[1].get("res") or t[1].get("path", "")
            if re.search(call_pat, nm) or re.search(call_pat, t[1].get("path", "")):
                a = t[2][arg_index]
                return {x for x in fl.const_roots(a) if isinstance(x, (int, bytes))}
    return None


def enum_return_table(fn):
    """for `match self { Variant => CONST, ... }`-style functions returning a constant per switch arm:
    {switch value: set(consts assigned to _0 on the straight-line chain)}"""
    fl = Flow(fn)
    res = []
    for sw in switches(fn, 2):
        tbl = {}
        for v, tgt in sw["arms"].items():
            vals = set()
            for b in straight_line(fn, tgt):
                for s in fn.stmts(b):
                    if s[0] == "a" and s[1] == [0]:
                        vals |= {x for x in fl.const_roots({"p": [0]}) if False}
                        rv = s[2]
                        if rv[0] == "use" and "p" not in rv[1]:
                            if "v" in rv[1]:
                                vals.add(rv[1]["v"])
                            elif "bytes" in rv[1]:
                                vals.add(bytes.fromhex(rv[1]["bytes"]))
                        elif rv[0] == "agg" and not rv[4]:
                            vals.add(rv[2] + "::" + rv[3])
                        elif rv[0] == "agg":
                            vals.add((rv[2] + "::" + rv[3],) + tuple(o.get("v") for o in rv[4]))
            tbl[v] = vals
        res.append({"switch": sw, "table": tbl})
    return res


def _arm_values(fn, tgt, limit=4):
    """constants / unit variants assigned on the straight-line chain starting at tgt"""
    vals = []
    for b in straight_line(fn, tgt, limit):
        for s in fn.stmts(b):
            if s[0] != "a":
                continue
            rv = s[2]
            if rv[0] == "use" and "p" not in rv[1]:
                if "v" in rv[1]:
                    vals.append(("int", rv[1]["v"], rv[1].get("def")))
                elif "bytes" in rv[1]:
                    vals.append(("bytes", bytes.fromhex(rv[1]["bytes"]), rv[1].get("def")))
                elif "def" in rv[1]:
                    vals.append(("def", rv[1]["def"], rv[1]["def"]))
            elif rv[0] == "agg" and rv[1] == "adt":
                vals.append(("variant", rv[3], rv[2]))
        if len(fn.preds()[b]) > 1 and b != tgt:
            break
    return vals


def enum_to_const(fn):
    """`match enum { V => CONST }` : list of {variant: value} (one per discriminant switch)"""
    out = []
    for bi in sorted(fn.reachable_blocks()):
        sv = fn.switch_variants(bi)
        if not sv:
            continue
        tbl = {}
        for tgt, names in sv["edges"].items():
            vs = [v for v in _arm_values(fn, tgt) if v[0] in ("int", "bytes", "def")]
            for n in names:
                tbl[n] = vs[0][1] if vs else None
        out.append({"block": bi, "table": tbl, "edges": sv["edges"]})
    return out


def const_to_enum(fn, min_arms=1):
    """`match int { CONST => V }` : list of ({int: variant}, otherwise_variant_or_None)"""
    out = []
    for sw in switches(fn, min_arms):
        if fn.switch_variants(sw["block"]):
            continue
        tbl = {}
        for v, tgt in sw["arms"].items():
            vs = [x for x in _arm_values(fn, tgt) if x[0] == "variant"]
            tbl[v] = vs[0][1] if vs else None
        ow = [x for x in _arm_values(fn, sw["otherwise"]) if x[0] == "variant"]
        out.append({"block": sw["block"], "table": tbl, "otherwise": ow[0][1] if ow else None, "otherwise_block": sw["otherwise"]})
    return out


_NORM = {"AddWithOverflow": "Add", "AddUnchecked": "Add", "SubWithOverflow": "Sub", "SubUnchecked": "Sub", "MulWithOverflow": "Mul",
         "MulUnchecked": "Mul", "ShlUnchecked": "Shl", "ShrUnchecked": "Shr"}


def arith_signature(fn, ops=("Shl", "Shr", "BitAnd", "BitOr", "BitXor", "Add", "Sub", "Mul", "Div", "Rem", "Eq", "Ne", "Lt", "Le", "Gt", "Ge")):
    """multiset of (binop, constant) pairs of a function, ignoring debug_assert expansions and overflow/bounds plumbing"""
    from collections import Counter
    sig = Counter()
    for bi, si, pl, rv, ln, mc in fn.assigns():
        if bi not in fn.reachable_blocks() or fn.is_cleanup(bi):
            continue
        if any(m.startswith("debug_assert") for m in mc):
            continue
        if rv[0] == "bin":
            op = _NORM.get(rv[1], rv[1])
            if op not in ops:
                continue
            for side, o in (("l", rv[2]), ("r", rv[3])):
                if "p" not in o and isinstance(o.get("v"), int):
                    # shifts emit `Lt(shift, bits)` checks in debug builds: macros empty, constant is the bit width; keep only user ops
                    sig[(op, o["v"], side if op in ("Shl", "Shr", "Sub", "Div", "Rem", "Lt", "Le", "Gt", "Ge") else "")] += 1
    return sig


def exclusive_arm_blocks(fn, sw):
    """for each arm value: blocks reachable from its target that are not reachable from any other arm target or the otherwise target"""
    tg = dict(sw["arms"])
    reach = {v: fn.reach_from(t) for v, t in tg.items()}
    ow = fn.reach_from(sw["otherwise"])
    out = {}
    for v in tg:
        others = set(ow) if sw["otherwise"] != tg[v] else set()
        for w in tg:
            if w != v and tg[w] != tg[v]:
                others |= reach[w]
        out[v] = reach[v] - others
    return out


def variants_built(fn, blocks, adt_pat):
    import re as _re
    out = set()
    for bi, si, pl, rv, ln, mc in fn.assigns():
        if bi in blocks and rv[0] == "agg" and rv[1] == "adt" and _re.search(adt_pat, rv[2]):
            out.add(rv[3])
    return out


def byte_tries(fn):
    """byte strings recognised by `match bytes { b"ABCD" => .. }` decision trees: list of (bytes, leaf block)"""
    out = []

    def idx_of(op):
        if "p" in op and len(op["p"]) >= 2 and isinstance(op["p"][-1], str) and op["p"][-1].startswith("[") and op["p"][-1][1:-1].isdigit():
            return tuple(op["p"][:-1]), int(op["p"][-1][1:-1])
        return None, None

    def walk(block, base, depth, prefix):
        t = fn.term(block)
        if t[0] == "switch":
            b, i = idx_of(t[1])
            if b == base and i == depth:
                for v, tgt in t[2]:
                    walk(tgt, base, depth + 1, prefix + bytes([v & 0xff]))
                return
        if prefix:
            out.append((prefix, block))

    for bi in sorted(fn.reachable_blocks()):
        t = fn.term(bi)
        if t[0] == "switch":
            b, i = idx_of(t[1])
            if b is not None and i == 0:
                walk(bi, b, 0, b"")
    return out
