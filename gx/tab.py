"""TAB — extraction of match/switch tables and constants from MIR facts."""
import re
from .flow import Flow


def switches(fn, min_arms=2):
    """integer switches of fn: list of dict(block, op, arms={val:target}, otherwise, ty)"""
    out = []
    for bi in sorted(fn.reachable_blocks()):
        t = fn.term(bi)
        if t[0] == "switch" and len(t[2]) >= min_arms:
            out.append({"block": bi, "op": t[1], "arms": {v: tgt for v, tgt in t[2]}, "otherwise": t[3], "ty": t[4]})
    return out


def straight_line(fn, block, limit=12):
    """blocks reached from `block` following unique successors (a straight-line chain)"""
    out = [block]
    seen = {block}
    b = block
    for _ in range(limit):
        s = fn.succs(b)
        if len(s) != 1 or s[0] in seen:
            break
        b = s[0]
        seen.add(b)
        out.append(b)
    return out


def const_call_arg_after(fn, block, call_pat, arg_index, limit=12):
    """first call matching call_pat on the straight-line chain from block: constant value(s) of its arg"""
    fl = Flow(fn)
    for b in straight_line(fn, block, limit):
        t = fn.term(b)
        if t[0] == "call":
            nm = t[1].get("res") or t[1].get("path", "")
            if re.search(call_pat, nm) or re.search(call_pat, t[1].get("path", "")):
                a = t[2][arg_index]
                return {x for x in fl.const_roots(a) if isinstance(x, (int, bytes))}
    return None


def enum_return_table(fn):
    """for `match self { Variant => CONST, ... }`-style functions returning a constant per switch arm:
    {switch value: set(consts assigned to _0 on the straight-line chain)}"""
    fl = Flow(fn)
    res = []
    for sw in switches(fn, 2):
        tbl = {}
        for v, tgt in sw["arms"].items():
            vals = set()
            for b in straight_line(fn, tgt):
                for s in fn.stmts(b):
                    if s[0] == "a" and s[1] == [0]:
                        vals |= {x for x in fl.const_roots({"p": [0]}) if False}
                        rv = s[2]
                        if rv[0] == "use" and "p" not in rv[1]:
                            if "v" in rv[1]:
                                vals.add(rv[1]["v"])
                            elif "bytes" in rv[1]:
                                vals.add(bytes.fromhex(rv[1]["bytes"]))
                        elif rv[0] == "agg" and not rv[4]:
                            vals.add(rv[2] + "::" + rv[3])
                        elif rv[0] == "agg":
                            vals.add((rv[2] + "::" + rv[3],) + tuple(o.get("v") for o in rv[4]))
            tbl[v] = vals
        res.append({"switch": sw, "table": tbl})
    return res
