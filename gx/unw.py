"""UNW — data-dependent unwrap / non-empty rules.

U1 index-after-shrink : indexing `[0]` / `[len-1]` (or a constant index) of a collection that the same function shrinks
                        (pop/remove/truncate/clear/drain/...) needs an emptiness test on that collection that dominates the
                        index with no shrink in between.
U2 next-unwrap        : `iter.next().unwrap()/expect()` must be discharged by a dominating peek() on the same iterator, by the
                        split-family first-item guarantee, or be listed as reviewed.
"""
import re
from .flow import Flow
from .facts import rvalue_operands

SHRINK = re.compile(r"::(pop|remove|truncate|clear|drain|swap_remove|split_off|pop_front|pop_back|retain|dedup\w*)$")
TESTS = re.compile(r"::(is_empty|len|first|last|get|first_mut|last_mut|split_first|split_last)$")
INDEX = re.compile(r"ops::index::Index(Mut)?(<[^>]*>)?>?::index(_mut)?$")
UNWRAP = re.compile(r"(core::option::Option::<T>::(unwrap|expect)$|core::result::Result::<T, E>::(unwrap|expect)$)")
SPLIT_FAMILY = re.compile(r"::(split|splitn|rsplit|rsplitn|split_str|splitn_str|rsplitn_str|split_terminator|split_inclusive|lines|lines_with_terminator|split_whitespace|fields)$")


def _ident(fl, op):
    out = set()
    for r in fl.roots(op, stop_named=False, sites=True):
        if r[0] == "arg":
            out.add(("arg", r[1]))
        elif r[0] == "call" and not TESTS.search(r[1]) and not re.search(r"::(as_ref|as_mut|as_bstr|as_bytes|deref|deref_mut|map_or|borrow|as_slice|as_mut_slice|into)$", r[1]):
            out.add(("call", r[1], r[2]))
    return out


def index_after_shrink(fn):
    """findings: list of dict(line, what)"""
    fl = Flow(fn)
    calls = fn.calls()
    shrinks = [(c, _ident(fl, c.args[0])) for c in calls if SHRINK.search(c.name) and c.args]
    shrinks = [(c, i) for c, i in shrinks if i]
    if not shrinks:
        return []
    tests = [(c, _ident(fl, c.args[0])) for c in calls if TESTS.search(c.name) and c.args]
    out = []
    for c in calls:
        if not INDEX.search(c.path) or len(c.args) < 2:
            continue
        idx = c.args[1]
        const_idx = "p" not in idx and isinstance(idx.get("v"), int)
        len_minus = False
        if "p" in idx:
            r = fl.roots(idx, stop_named=False)
            # index derived from len() - 1
            seen, work = set(), [idx["p"][0]]
            while work:
                l = work.pop()
                if l in seen:
                    continue
                seen.add(l)
                for (bi, si, k, p) in fl.defs.get(l, []):
                    if k == "a":
                        rv = p[1]
                        if rv[0] == "bin" and rv[1].startswith("Sub") and rv[3].get("v") == 1 and any(x[0] == "call" and x[1].endswith("::len") for x in fl.roots(rv[2], stop_named=False)):
                            len_minus = True
                        if rv[0] == "use" and "p" in rv[1]:
                            work.append(rv[1]["p"][0])
            if not len_minus and not (len(r) == 1 and next(iter(r))[0] == "const" and isinstance(next(iter(r))[1], int)):
                continue
            if not len_minus:
                const_idx = True
        if not (const_idx or len_minus):
            continue
        base = _ident(fl, c.args[0])
        need = (idx.get("v", 0) if const_idx and "p" not in idx else 0) + 1
        rel = [s for s, i in shrinks if i & base and c.block in fn.reach_from(s.block) and not _keeps_at_least(fn, fl, s, need if not len_minus else 1)]
        if not rel:
            continue
        # edges on which the collection is known to hold at least `need` elements: crossing one of them discharges the shrink
        safe = set()
        for t, ti in tests:
            if ti & base:
                safe |= _nonempty_edges(fn, fl, t, need if not len_minus else 1)
        # pushing an element makes the collection non-empty again
        grown = set()
        if (need if not len_minus else 1) <= 1:
            grown = {g.block for g in calls if re.search(r"::(push|push_back|push_front|insert|push_byte|push_char)$", g.name) and g.args and (_ident(fl, g.args[0]) & base)}
        bad = []
        for s in rel:
            cons = _discr_constraints(fn, fl, s.block)
            if c.block in _reach_constrained(fn, fl, s.block, grown - {s.block, c.block}, cons, avoid_edges=safe):
                bad.append(s)
        if bad:
            out.append({"line": c.line, "what": "index %s of a collection shrunk at line(s) %s without an emptiness test in between" % ("[len-1]" if len_minus else "[%s]" % idx.get("v", "const"), sorted({s.line for s in bad}))})
    return out


def _can_reach(fn, target, avoid=()):
    preds = fn.preds()
    seen = {target}
    st = [target]
    while st:
        b = st.pop()
        for p in preds.get(b, []):
            if p not in seen and p not in avoid:
                seen.add(p)
                st.append(p)
    return seen


def _lower_bound(fl, op, depth=0):
    if "p" not in op:
        return op.get("v", 0) if isinstance(op.get("v"), int) and op.get("v") >= 0 else 0
    if depth > 6 or len(op["p"]) > 2:
        return 0
    ds = fl.defs.get(op["p"][0], [])
    if len(ds) != 1 or ds[0][2] != "a":
        return 0
    rv = ds[0][3][1]
    if rv[0] == "use":
        return _lower_bound(fl, rv[1], depth + 1)
    if rv[0] == "bin" and rv[1].startswith("Add"):
        return _lower_bound(fl, rv[2], depth + 1) + _lower_bound(fl, rv[3], depth + 1)
    return 0


def _keeps_at_least(fn, fl, shrink, need):
    """truncate(n) with a provable lower bound of n >= need keeps the indexed prefix"""
    if shrink.name.endswith("::truncate") and len(shrink.args) > 1:
        return _lower_bound(fl, shrink.args[1]) >= need
    return False


def _discr_vars(fl, place):
    """named variables whose discriminant a switch place reflects (through as_ref/as_mut/as_deref views)"""
    out = set()
    if fl.fn.local_name(place[0]) is not None and all(x == "*" for x in place[1:]):
        out.add(place[0])
    for r in fl.roots(place, stop_named=True, stop_calls=r"^(?!.*::(as_ref|as_mut|as_deref|as_deref_mut)$)"):
        if r[0] == "var" and not r[3]:
            out.add(r[1])
    return out


def _discr_constraints(fn, fl, block):
    cons = {}
    for b in fn.reachable_blocks():
        if b == block or not fn.dominates(b, block):
            continue
        sv = fn.switch_variants(b)
        if not sv:
            continue
        vs = _discr_vars(fl, sv["place"])
        if not vs:
            continue
        hit = [names for t, names in sv["edges"].items() if block in fn.reach_from(t)]
        if len(hit) == 1:
            for v in vs:
                cons[v] = set(hit[0])
    return cons


def _reach_constrained(fn, fl, start, avoid, cons, avoid_edges=()):
    seen = set()
    st = []
    for s in fn.succs(start):
        if s not in avoid and (start, s) not in avoid_edges:
            seen.add(s); st.append(s)
    while st:
        b = st.pop()
        succs = fn.succs(b)
        sv = fn.switch_variants(b)
        if sv and cons:
            vs = _discr_vars(fl, sv["place"])
            for v in vs:
                if v in cons:
                    succs = [t for t, names in sv["edges"].items() if set(names) & cons[v]]
        for s in succs:
            if s not in seen and s not in avoid and (b, s) not in avoid_edges:
                seen.add(s); st.append(s)
    return seen


def _nonempty_edges(fn, fl, t, need):
    """CFG edges on which the collection tested by call `t` is known to have at least `need` elements"""
    from .flow import comparisons, bool_switch_edges
    out = set()
    nm = t.name
    if nm.endswith("::is_empty"):
        if need <= 1:
            out |= fl.result_edges(t)["bad"]          # is_empty() == false
        return out
    if nm.endswith("::len"):
        for cm in comparisons(fn):
            for side, other in (("a", "b"), ("b", "a")):
                if "p" not in cm[side] or "p" in cm[other] or not isinstance(cm[other].get("v"), int):
                    continue
                if not any(r[0] == "call" and r[2] == t.block for r in fl.roots(cm[side], stop_named=False, sites=True) if len(r) > 2):
                    continue
                e = bool_switch_edges(fn, cm["block"], cm["res"])
                if not e:
                    continue
                te, fe = e
                k = cm[other]["v"]
                op = cm["op"] if side == "a" else {"Lt": "Gt", "Le": "Ge", "Gt": "Lt", "Ge": "Le"}.get(cm["op"], cm["op"])
                # len op k
                if op == "Gt" and k + 1 >= need: out |= te
                if op == "Ge" and k >= need: out |= te
                if op == "Lt" and k >= need: out |= fe
                if op == "Le" and k + 1 >= need: out |= fe
                if op == "Eq" and k >= need: out |= te
                if op == "Ne" and k == 0 and need <= 1: out |= te
                if op == "Eq" and k == 0 and need <= 1: out |= fe
        return out
    # Option-returning probes: first/last/get/split_first ...
    idx_ok = True
    if nm.endswith("::get") and len(t.args) > 1:
        idx_ok = "p" not in t.args[1] and isinstance(t.args[1].get("v"), int) and t.args[1]["v"] + 1 >= need
    elif need > 1:
        idx_ok = False
    if not idx_ok:
        return out
    out |= fl.result_edges(t)["good"]                  # matched as Some(..)
    # compared with a constant Some(..): `x.first() == Some(&b'/')`
    for c2 in fn.calls():
        if not c2.is_(r"cmp::PartialEq(<.*>)?>?::(eq|ne)$") or len(c2.args) != 2:
            continue
        sides = [any(r[0] == "call" and len(r) > 2 and r[2] == t.block for r in fl.roots(a, stop_named=False, sites=True)) for a in c2.args]
        if sides[0] == sides[1]:
            continue
        other = c2.args[1] if sides[0] else c2.args[0]
        is_some = False
        for r in fl.roots(other, stop_named=False):
            if r[0] == "promoted":
                pname = "%s::{promoted#%s}" % (fn.name, r[1])
                # the promoted body is part of the same crate unit
                pr = getattr(fn, "promoteds", {}).get(pname)
                if pr is not None and any(rv[0] == "agg" and rv[3] == "Some" for bi, si, pl, rv, ln, mc in pr.assigns()):
                    is_some = True
            if r[0] == "const" and isinstance(r[1], str) and r[1].startswith("agg:") and r[1].endswith("::Some"):
                is_some = True
        for bi, si, pl, rv, ln, mc in fn.assigns():
            if rv[0] == "agg" and rv[1] == "adt" and rv[3] == "Some" and "p" in other and any(r[0] == "var" or True for r in ()):
                pass
        if not is_some and "p" in other:
            # a locally built Some(..)
            seen, work = set(), [other["p"][0]]
            while work:
                l = work.pop()
                if l in seen:
                    continue
                seen.add(l)
                for (b2, s2, k2, p2) in fl.defs.get(l, []):
                    if k2 == "a":
                        rv = p2[1]
                        if rv[0] == "agg" and rv[1] == "adt" and rv[3] == "Some":
                            is_some = True
                        elif rv[0] in ("use", "ref"):
                            src = rv[1] if rv[0] == "use" else {"p": rv[2]}
                            if "p" in src:
                                work.append(src["p"][0])
        if not is_some:
            continue
        e = fl.result_edges(c2)
        out |= e["good"] if c2.name.endswith("::eq") else e["bad"]
    return out


def next_unwraps(fn):
    """list of dict(line, call, discharged(bool), how) for unwrap/expect of Iterator::next results (not from macro expansions)"""
    fl = Flow(fn)
    out = []
    calls = fn.calls()
    for c in calls:
        if not UNWRAP.search(c.name) or c.macros or not c.args:
            continue
        r1 = [r for r in fl.roots(c.args[0], stop_named=False, stop_calls=r".", sites=True) if r[0] == "call"]
        nxt = [r for r in r1 if re.search(r"::(next|next_back)$", r[1])]
        if not nxt:
            continue
        n = [x for x in calls if x.block == nxt[0][2]][0]
        it = _ident(fl, n.args[0]) | {("var", v) for v in fl.root_vars(n.args[0])}
        how = None
        for p in calls:
            if re.search(r"Peekable<I>::peek$|::peek$", p.name) and p.args and fn.dominates(p.block, c.block) and ((_ident(fl, p.args[0]) | {("var", v) for v in fl.root_vars(p.args[0])}) & it):
                how = "dominating peek() on the same iterator"
        if how is None:
            prod = [r for r in fl.roots(n.args[0], stop_named=False) if r[0] == "call"]
            in_loop = any(c.block in l["body"] for l in fn.loops())
            earlier = [x for x in calls if re.search(r"::(next|next_back)$", x.name) and x is not n and x.args and fn.dominates(x.block, n.block) and ((_ident(fl, x.args[0]) | {("var", v) for v in fl.root_vars(x.args[0])}) & it)]
            if any(SPLIT_FAMILY.search(r[1]) for r in prod) and not in_loop and not earlier and not any(r[1].endswith(("::lines", "::lines_with_terminator", "::split_whitespace", "::fields")) for r in prod):
                how = "first item of a split()/splitn() iterator always exists"
        out.append({"line": c.line, "discharged": how is not None, "how": how or "", "in_loop": any(c.block in l["body"] for l in fn.loops())})
    return out


# ---- U3: slice -> fixed array conversion that is unwrapped needs constant-length provenance ---------------------------
TRYINTO = re.compile(r"(convert::TryInto<[^>]*>>?::try_into$|convert::TryFrom<[^>]*>>?::try_from$|::try_into$|::try_from$)")


def _array_len(call):
    m = re.findall(r"\[[\w:]+; (\d+)\]", call.callee.get("targs", "") + " " + call.name)
    return int(m[-1]) if m else None


def const_len_of(fn, fl, op, depth=0):
    """length of the slice in `op` if it is structurally constant, else None; ('param', i) if it is a parameter"""
    if "p" not in op or depth > 8:
        return None
    l = op["p"][0]
    ty = fn.locals[l]
    m = re.match(r"^&(mut )?\[[\w:]+; (\d+)\]$", ty)
    if m:
        return int(m.group(2))
    if 1 <= l <= fn.argc and all(x == "*" for x in op["p"][1:]):
        return ("param", l)
    ds = fl.defs.get(l, [])
    vals = set()
    for (bi, si, k, p) in ds:
        if k == "a":
            rv = p[1]
            if rv[0] == "use" or rv[0] == "cast":
                o = rvalue_operands(rv)[0]
                if "p" in o and any(isinstance(x, str) and x in (".0",) for x in o["p"][1:]):
                    # first half of split_at(N) results, or a tuple item of an iterator over exact chunks
                    got = False
                    for (b2, s2, k2, p2) in fl.defs.get(o["p"][0], []):
                        got = True
                        if k2 == "call" and re.search(r"::split_at(_mut|_checked|_pos)?$", p2.name) and len(p2.args) > 1 and const_int(fn, fl, p2.args[1]) is not None:
                            vals.add(const_int(fn, fl, p2.args[1]))
                        else:
                            vals.add(const_len_of(fn, fl, {"p": [o["p"][0]]}, depth + 1))
                    if not got:
                        vals.add(None)
                else:
                    vals.add(const_len_of(fn, fl, o, depth + 1))
            elif rv[0] == "ref":
                vals.add(const_len_of(fn, fl, {"p": rv[2]}, depth + 1) if all(x == "*" for x in rv[2][1:]) else _len_of_place(fn, fl, rv[2]))
            else:
                vals.add(None)
        else:
            c = p
            if INDEX.search(c.path) and len(c.args) > 1:
                vals.add(_range_len(fn, fl, c.args[1]))
            elif re.search(r"::(next|next_back)$", c.name) and c.args:
                # item of chunks_exact(N) / array_chunks
                it = [r for r in fl.roots(c.args[0], stop_named=False, sites=True) if r[0] == "call"]
                n = None
                if any(r[1].endswith(("::chunks", "::rchunks", "::windows", "::split", "::splitn")) for r in it):
                    it = []
                for r in it:
                    if r[1].endswith("::chunks_exact") or r[1].endswith("::rchunks_exact"):
                        cc = [x for x in fn.calls() if x.block == r[2]][0]
                        if len(cc.args) > 1:
                            ks = {x for x in fl.const_roots(cc.args[1]) if isinstance(x, int)}
                            n = next(iter(ks)) if len(ks) == 1 else None
                vals.add(n)
            elif re.search(r"::(as_ref|as_slice|deref|as_bytes|borrow|as_bstr|into|clone|unwrap|expect|branch|ok_or|ok_or_else|unwrap_or_default)$", c.name) and c.args:
                vals.add(const_len_of(fn, fl, c.args[0], depth + 1))
            else:
                vals.add(None)
    if len(vals) == 1:
        return next(iter(vals))
    return None


def _len_of_place(fn, fl, place):
    return None


_SIZES = {"u8": 1, "i8": 1, "u16": 2, "i16": 2, "u32": 4, "i32": 4, "u64": 8, "i64": 8, "u128": 16, "usize": 8}


def const_int(fn, fl, op):
    if "p" not in op:
        return op.get("v") if isinstance(op.get("v"), int) else None
    ks = {x for x in fl.const_roots(op) if isinstance(x, int)}
    rs = fl.roots(op, stop_named=False)
    calls = [r for r in rs if r[0] == "call"]
    if len(ks) == 1 and not calls:
        return next(iter(ks))
    if len(calls) == 1 and calls[0][1].endswith("mem::size_of") and not ks:
        for c in fn.calls():
            if c.name.endswith("mem::size_of"):
                return _SIZES.get(c.callee.get("targs", "").strip())
    return None


def closure_param_len(db, clo, op):
    """closure parameter (or its tuple field .0) fed by Option::map / Iterator::map over a split_at-like helper or chunks_exact"""
    if db is None or clo.kind != "closure" or "p" not in op or op["p"][0] != 2:
        return None
    par = db.fns.get(clo.root) if clo.name.count("{closure#") == 1 else db.fns.get(clo.name.rsplit("::{closure#", 1)[0])
    if par is None:
        return None
    pfl = Flow(par)
    first_field = any(x == ".0" for x in op["p"][1:])
    for c in par.calls():
        if not any(a.get("closure") == clo.name or ("p" in a and any(k == "a" and p[1][0] == "agg" and p[1][2] == clo.name for (bi, si, k, p) in pfl.defs.get(a["p"][0], []))) for a in c.args):
            continue
        if not re.search(r"::(map|and_then|for_each|filter_map)$", c.name) or not c.args:
            continue
        src = [r for r in pfl.roots(c.args[0], stop_named=False, sites=True) if r[0] == "call"]
        for r in src:
            cc = [x for x in par.calls() if x.block == r[2]][0]
            if re.search(r"::(split_at|split_at_pos|split_at_checked)$", r[1]) and first_field and len(cc.args) > 1:
                return const_int(par, pfl, cc.args[1])
            if r[1].endswith("::chunks_exact") and not first_field and len(cc.args) > 1 and not any(x[1].endswith(("::chunks", "::zip")) for x in src):
                return const_int(par, pfl, cc.args[1])
    return None


def _range_len(fn, fl, op):
    """constant length of a Range/RangeTo aggregate operand"""
    if "p" not in op:
        return None
    for (bi, si, k, p) in fl.defs.get(op["p"][0], []):
        if k != "a" or p[1][0] != "agg":
            continue
        rv = p[1]
        if rv[2].endswith("ops::range::RangeTo") and len(rv[4]) == 1:
            ks = {x for x in fl.const_roots(rv[4][0]) if isinstance(x, int)}
            return next(iter(ks)) if len(ks) == 1 and "p" not in rv[4][0] or (len(ks) == 1 and len(fl.roots(rv[4][0], stop_named=False)) == 1) else None
        if rv[2].endswith("ops::range::Range") and len(rv[4]) == 2:
            a, b = rv[4]
            if "p" not in a and "p" not in b and isinstance(a.get("v"), int) and isinstance(b.get("v"), int):
                return b["v"] - a["v"]
            # end = start + N
            if "p" in b:
                seen, work = set(), [b["p"][0]]
                while work:
                    l = work.pop()
                    if l in seen:
                        continue
                    seen.add(l)
                    for (b2, s2, k2, p2) in fl.defs.get(l, []):
                        if k2 == "a":
                            r2 = p2[1]
                            if r2[0] == "use" and "p" in r2[1]:
                                work.append(r2[1]["p"][0])
                            if r2[0] == "bin" and r2[1].startswith("Add") and isinstance(r2[3].get("v"), int) and "p" not in r2[3]:
                                if fl.roots(r2[2], stop_named=False) == fl.roots(a, stop_named=False):
                                    return r2[3]["v"]
    return None


def array_conversions(fn, db=None):
    """[(call try_into, unwrap call, N, provenance)] for unwrapped slice->array conversions"""
    fl = Flow(fn)
    out = []
    for u in fn.calls():
        if not UNWRAP.search(u.name) or u.macros or not u.args:
            continue
        r1 = [r for r in fl.roots(u.args[0], stop_named=False, stop_calls=r".", sites=True) if r[0] == "call"]
        ti = [r for r in r1 if TRYINTO.search(r[1])]
        if not ti:
            continue
        c = [x for x in fn.calls() if x.block == ti[0][2]][0]
        n = _array_len(c)
        if n is None or not c.args:
            continue
        if not re.search(r"\[", c.callee.get("targs", "").split(",")[0]):
            continue   # integer conversions (u32 -> usize ...), not slices
        prov = const_len_of(fn, fl, c.args[0])
        if prov is None or (isinstance(prov, tuple) and fn.kind == "closure"):
            # closure parameter: look at how the parent feeds the closure
            src = c.args[0]
            seen = set()
            while "p" in src and src["p"][0] != 2 and src["p"][0] not in seen:
                seen.add(src["p"][0])
                ds = [p for (bi, si, k, p) in fl.defs.get(src["p"][0], []) if k == "a" and p[1][0] in ("use", "ref")]
                if len(ds) != 1:
                    break
                src = ds[0][1][1] if ds[0][1][0] == "use" else {"p": ds[0][1][2]}
            cp = closure_param_len(db, fn, src)
            if cp is not None:
                prov = cp
        out.append((c, u, n, prov))
    return out


# ---- U5: `len() - x` needs a dominating comparison that relates the length to x --------------------------------------
def len_minus_unguarded(fn):
    """SubWithOverflow/Sub whose minuend is (derived only from) a `len()` call and whose subtrahend is not 0, without a
    dominating ordering comparison involving the same len value / an is_empty-style test for `- 1`"""
    fl = Flow(fn)
    out = []
    cmps = []
    for bi, si, pl, rv, ln, mc in fn.assigns():
        if rv[0] == "bin" and rv[1] in ("Lt", "Le", "Gt", "Ge", "Eq", "Ne"):
            if any(m.startswith("debug_assert") for m in mc):
                continue
            cmps.append((bi, rv))
    tests = [c for c in fn.calls() if re.search(r"::(is_empty|first|last|split_first|split_last|get|checked_sub|starts_with|ends_with|strip_prefix|strip_suffix|find\w*|position|rposition|rfind\w*|peek)$", c.name)]
    for bi, si, pl, rv, ln, mc in fn.assigns():
        if rv[0] != "bin" or not rv[1].startswith("Sub") or any(m.startswith("debug_assert") for m in mc) or fn.is_cleanup(bi):
            continue
        a, b = rv[2], rv[3]
        ra = fl.roots(a, stop_named=False, sites=True, stop_calls=r"::len$")
        lens = {r for r in ra if r[0] == "call" and r[1].endswith("::len")}
        if not lens or any(r[0] == "call" and not r[1].endswith("::len") for r in ra):
            continue
        if "p" not in b and b.get("v") == 0:
            continue
        recv = set()
        for r in lens:
            call = [c for c in fn.calls() if c.block == r[2]][0]
            recv |= {x for x in fl.roots(call.args[0], stop_named=False) if x[0] in ("arg", "var", "call")}
        ok = False
        for cb, crv in cmps:
            if not fn.dominates(cb, bi):
                continue
            rs = fl.roots(crv[2], stop_named=False, sites=True, stop_calls=r"::len$") | fl.roots(crv[3], stop_named=False, sites=True, stop_calls=r"::len$")
            for r in rs:
                if r[0] == "call" and r[1].endswith("::len"):
                    call = [c for c in fn.calls() if c.block == r[2]][0]
                    if {x for x in fl.roots(call.args[0], stop_named=False) if x[0] in ("arg", "var", "call")} & recv:
                        ok = True
        if not ok:
            for t in tests:
                if fn.dominates(t.block, bi) and t.args and ({x for x in fl.roots(t.args[0], stop_named=False) if x[0] in ("arg", "var", "call")} & recv):
                    ok = True
        if not ok:
            out.append({"line": ln, "what": "len() - %s without a dominating comparison of that length" % (b.get("v") if "p" not in b else "x")})
    return out
