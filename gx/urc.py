"""URC — untrusted-integer range checker (Engler et al.'s range checker specialised to this repo).

sources : integers decoded from input bytes (external decode calls, and workspace functions whose
          summary says they return such a value without bounding it)
sinks   : slice/Vec index and split positions (MIR bounds-check asserts, Index/IndexMut calls with
          a tainted index or range, split_at/split_off/drain/copy_within/remove/advance ...)
guards  : a dominating ordering comparison (<,<=,>,>=; PartialOrd/Ord calls) one of whose operands
          derives from the same source; `min`/`clamp`/`checked_*`/`get`/`try_from`/`%`/`&` bound the
          value.  Comparisons that come from debug_assert* expansions are not guards.
Interprocedural through summaries (return-taint, param->return, param->sink) to a fixpoint.
"""
import re
from collections import defaultdict
from .facts import rvalue_operands

SOURCE_EXT = re.compile(
    r"(::from_be_bytes$|::from_le_bytes$|::from_ne_bytes$|::from_str_radix$|^btoi::|byteorder::.*::read_[ui]\d+|"
    r"ReadBytesExt::read_[ui]\d+|core::str::<impl str>::parse$|::from_ascii_radix$|::from_ascii$)"
)
SANITIZER = re.compile(
    r"(::min$|::clamp$|::checked_\w+$|::try_from$|::try_into$|::get$|::get_mut$|::get_unchecked|::position$|::find\w*$|"
    r"::len$|::is_empty$|::capacity$|::count$|::rem_euclid$|::saturating_sub$|::wrapping_\w+$|::overflowing_\w+$|::first$|::last$|"
    r"::as_ptr$|::to_string$|::fmt$|::leading_zeros$|::trailing_zeros$|::count_ones$)"
)
CMP_CALL = re.compile(r"(PartialOrd(<[^>]*>)?>?::(lt|le|gt|ge|partial_cmp)$|Ord>?::cmp$|::cmp$|::partial_cmp$)")
SINK_CALL = re.compile(
    r"(::split_at(_mut)?$|::split_off$|::drain$|::copy_within$|alloc::vec::Vec::<T, A>::(remove|swap_remove|insert|truncate_front)$|"
    r"::split_to$|::advance$|::split_at_unchecked$|::split_first_chunk|::split_last_chunk)"
)
CHECKED_ACCESS = re.compile(r"(::get$|::get_mut$|::split_at_checked$|::split_at_mut_checked$|::checked_(add|sub|mul)$|::split_at_pos$)")
TRY_PASS = re.compile(r"(Try>?::branch$|::map_err$|::ok_or$|::ok_or_else$|::ok$)")
CONTAINER_WRITE = re.compile(r"::(push|push_back|push_front|insert|extend|extend_from_slice|append|entry|or_insert\w*)$")
# allocation sized by a decoded integer: capacity overflow panics, huge sizes abort the process
ALLOC_CALL = re.compile(r"(::with_capacity$|::with_capacity_in$|::reserve$|::reserve_exact$|alloc::vec::Vec::<T, A>::resize$|::from_elem$|::resize_with$)")
INDEX_CALL = re.compile(r"ops::index::Index(Mut)?(<[^>]*>)?>?::index(_mut)?$")
ORD_OPS = {"Lt", "Le", "Gt", "Ge"}
NO_TAINT_BIN = {"Lt", "Le", "Gt", "Ge", "Eq", "Ne", "Rem", "BitAnd", "Cmp"}
INTEGERISH = re.compile(r"^(u8|u16|u32|u64|u128|usize|i8|i16|i32|i64|i128|isize)$")
# types that cannot carry a decoded integer: byte/str containers, bool, unit, readers/writers (bare generics)
NO_INT_TY = re.compile(
    r"^(&(mut )?)*(\[u8\]|\[u8; \d+\]|str|bool|\(\)|char|!|f32|f64|bstr::bstr::BStr|bstr::bstring::BString|alloc::string::String|"
    r"alloc::vec::Vec<u8>|std::path::Path|std::path::PathBuf|std::ffi::os_str::OsStr|std::ffi::os_str::OsString|"
    r"[A-Z][A-Za-z0-9]{0,2}|impl [^,]*|std::io::error::Error|alloc::borrow::Cow<'_, (bstr::bstr::BStr|str|\[u8\])>|"
    r"core::option::Option<&(mut )?(\[u8\]|str|bstr::bstr::BStr)>)$"
)


def carries_int(ty):
    return not NO_INT_TY.match(ty)


_INT_TOKEN = re.compile(r"(?<![\w:])(u16|u32|u64|u128|usize|i16|i32|i64|i128|isize)(?![\w:])")


def param_carries_int(ty, is_closure_env=False):
    """parameters seed taint labels only if an integer type is visible in their type (integers, tuples/Option/Result of
    integers, ranges); whole structs handed around by reference are not followed across calls (field-insensitive taint on
    them produced only false alarms), closure environments are tracked per captured variable instead"""
    if is_closure_env:
        return True
    return bool(_INT_TOKEN.search(ty)) and not NO_INT_TY.match(ty)


class Summary:
    __slots__ = ("ret_src", "ret_params", "param_sinks", "own_findings", "ret_fields")

    def __init__(self):
        self.ret_src = False          # returns a value derived from an unbounded source
        self.ret_params = set()       # params whose taint reaches the return value unbounded
        self.param_sinks = {}         # param idx -> description of the sink it reaches unbounded
        self.own_findings = []
        self.ret_fields = None        # (wrap depth, {tuple field: tainted?}) when the result is a (wrapped) tuple built in the function

    def key(self):
        return (self.ret_src, frozenset(self.ret_params), frozenset(self.param_sinks), str(self.ret_fields))


def assert_extra(t):
    if t[0] == "assert" and isinstance(t[-1], list) and len(t[-1]) == 2 and isinstance(t[-1][0], dict):
        return t[-1]
    return None


class URC:
    def __init__(self, db, scope_fns, extra_sources=None, ignore_sources=None, alloc_sinks=False):
        self.db = db
        self.scope = {f.key: f for f in scope_fns}
        self.byname = {}
        for f in scope_fns:
            self.byname.setdefault(f.name, f)
        self.extra_sources = extra_sources
        self.ignore_sources = ignore_sources
        self.alloc_sinks = alloc_sinks
        self.summ = {k: Summary() for k in self.scope}
        self.stats = defaultdict(int)

    def run(self, max_rounds=8):
        for rnd in range(max_rounds):
            changed = False
            for k, f in self.scope.items():
                before = self.summ[k].key()
                self.analyze(f)
                if self.summ[k].key() != before:
                    changed = True
            self.stats["rounds"] = rnd + 1
            if not changed:
                break
        findings = []
        for k in self.scope:
            findings.extend(self.summ[k].own_findings)
        return findings

    def callee_summary(self, call):
        for n in (call.callee.get("res"), call.callee.get("path")):
            if n and n in self.byname:
                return self.summ[self.byname[n].key], self.byname[n]
        return None, None

    def analyze(self, fn):
        S = self.summ[fn.key]
        taint = defaultdict(set)        # local -> set(root)
        carr = [carries_int(t) for t in fn.locals]
        for i in range(1, fn.argc + 1):
            if carr[i] and param_carries_int(fn.locals[i], fn.kind == "closure" and i == 1):
                taint[i].add(("param", i))
        calls = fn.calls()
        reach = fn.reachable_blocks()

        is_closure = fn.kind == "closure"

        def op_taint(op):
            if "p" in op:
                p = op["p"]
                if is_closure and p[0] == 1:
                    # captured variables are tracked per upvar: `(*_1).k`
                    flds = [x for x in p[1:] if isinstance(x, str) and x.startswith(".")]
                    if flds:
                        return {("param", (1, flds[0]))}
                if p[0] in ftaint:
                    sel = ftaint_select(p)
                    if sel is not None and sel[0] == "field":
                        return set(sel[1]) | taint.get(p[0], set())
                    depth, fields = ftaint[p[0]]
                    return set().union(*fields.values()) | taint.get(p[0], set()) if fields else taint.get(p[0], set())
                return taint.get(p[0], set())
            return set()

        # field-sensitive results of callees that return (wrapped) tuples: local -> (wrap depth, {field index: roots})
        ftaint = {}

        def ftaint_select(p):
            """('field', roots) when the place selects one tuple field, ('tuple', depth0-map) when it selects the whole tuple, None otherwise"""
            depth, fields = ftaint[p[0]]
            proj = [x for x in p[1:] if x != "*"]
            if depth == 1:
                if len(proj) >= 2 and proj[0].startswith("as ") and proj[1] == ".0":
                    proj = proj[2:]
                elif not proj:
                    return ("wrapped", fields)
                else:
                    return None
            if not proj:
                return ("tuple", fields)
            if proj[0].startswith(".") and proj[0][1:].isdigit():
                return ("field", fields.get(int(proj[0][1:]), set()))
            return None

        # temps holding `&mut X`: calls that receive them may write X
        mut_borrow = {}
        for bi in reach:
            for s in fn.stmts(bi):
                if s[0] == "a" and s[2][0] == "ref" and s[2][1] == "mut" and len(s[1]) == 1:
                    mut_borrow[s[1][0]] = s[2][2][0]

        closure_of = {}     # local -> name of the closure / fn item it holds
        for bi in reach:
            for s in fn.stmts(bi):
                if s[0] == "a" and len(s[1]) == 1 and s[2][0] == "agg" and s[2][1] == "closure":
                    closure_of[s[1][0]] = s[2][2]
                elif s[0] == "a" and len(s[1]) == 1 and s[2][0] == "use" and "p" not in s[2][1] and (s[2][1].get("fn") or s[2][1].get("closure")):
                    closure_of[s[1][0]] = s[2][1].get("fn") or s[2][1].get("closure")
        src_desc = {}
        changed = True
        it = 0
        while changed and it < 50:
            it += 1
            changed = False
            for bi in reach:
                for s in fn.stmts(bi):
                    if s[0] != "a":
                        continue
                    pl, rv = s[1], s[2]
                    k = rv[0]
                    add = set()
                    if k == "use" and "p" in rv[1] and rv[1]["p"][0] in ftaint and len(pl) == 1:
                        sel = ftaint_select(rv[1]["p"])
                        if sel is not None and sel[0] in ("tuple", "wrapped"):
                            new = (0 if sel[0] == "tuple" else 1, sel[1])
                            if ftaint.get(pl[0]) != new:
                                ftaint[pl[0]] = new
                                changed = True
                            continue
                    if k in ("use", "cast", "repeat", "un"):
                        for op in rvalue_operands(rv):
                            add |= op_taint(op)
                    elif k == "bin":
                        if rv[1] not in NO_TAINT_BIN:
                            add |= op_taint(rv[2]) | op_taint(rv[3])
                    elif k == "agg":
                        for op in rv[4]:
                            add |= op_taint(op)
                    elif k in ("ref", "rawptr"):
                        add |= op_taint({"p": rv[2]})
                    if add and carr[pl[0]] and not add <= taint[pl[0]]:
                        taint[pl[0]] |= add
                        changed = True
            for c in calls:
                if c.block not in reach:
                    continue
                add = set()
                nm = c.name
                summ, callee = self.callee_summary(c)
                is_src = (SOURCE_EXT.search(nm) or SOURCE_EXT.search(c.path) or (self.extra_sources and self.extra_sources.search(nm)))
                if is_src and self.ignore_sources and self.ignore_sources(fn, c):
                    is_src = False
                if is_src:
                    r = ("src", c.block)
                    src_desc[r] = nm
                    add.add(r)
                elif summ is not None:
                    if summ.ret_src:
                        r = ("src", c.block)
                        src_desc[r] = nm
                        if summ.ret_fields is not None:
                            new = (summ.ret_fields[0], {k_: ({r} if t_ else set()) for k_, t_ in summ.ret_fields[1].items()})
                            if ftaint.get(c.dest[0]) != new:
                                ftaint[c.dest[0]] = new
                                changed = True
                        else:
                            add.add(r)
                    for i in summ.ret_params:
                        if isinstance(i, int) and i - 1 < len(c.args):
                            add |= op_taint(c.args[i - 1])
                elif TRY_PASS.search(nm) and c.args and "p" in c.args[0] and c.args[0]["p"][0] in ftaint and len(c.args[0]["p"]) == 1:
                    # `?` and error adaptors keep the Ok payload: the field map survives, one level wrapped
                    depth, fields = ftaint[c.args[0]["p"][0]]
                    new = (1, fields)
                    if ftaint.get(c.dest[0]) != new:
                        ftaint[c.dest[0]] = new
                        changed = True
                elif SANITIZER.search(nm) or SANITIZER.search(c.path) or CMP_CALL.search(c.path):
                    pass
                else:
                    for a in c.args:
                        add |= op_taint(a)
                        # higher-order adaptors (map, and_then, map_or, then, unwrap_or_else ...): what the closure returns
                        # flows into the result
                        cn = a.get("closure") or a.get("fn") or (closure_of.get(a["p"][0]) if "p" in a and len(a["p"]) == 1 else None)
                        if cn and cn in self.byname and self.summ[self.byname[cn].key].ret_src:
                            r = ("src", c.block)
                            src_desc[r] = cn
                            add.add(r)
                    # container writes: `vec.push(tainted)`, `map.insert(k, tainted)`, `extend`, ...
                    if c.args and "p" in c.args[0] and c.args[0]["p"][0] in mut_borrow and CONTAINER_WRITE.search(nm):
                        w = set()
                        for a in c.args[1:]:
                            w |= op_taint(a)
                        base = mut_borrow[c.args[0]["p"][0]]
                        seen_b = set()
                        while base in mut_borrow and base not in seen_b:
                            seen_b.add(base)
                            base = mut_borrow[base]
                        if w and carr[base] and not w <= taint[base]:
                            taint[base] |= w
                            changed = True
                if add and carr[c.dest[0]] and not add <= taint[c.dest[0]]:
                    taint[c.dest[0]] |= add
                    changed = True
        # guards: (block, roots)
        guards = []
        for bi in reach:
            for s in fn.stmts(bi):
                if s[0] == "a" and s[2][0] == "bin" and s[2][1] in ORD_OPS:
                    macros = s[4] if len(s) > 4 else []
                    if any(m.startswith("debug_assert") for m in macros):
                        continue
                    r = op_taint(s[2][2]) | op_taint(s[2][3])
                    if r:
                        guards.append((bi, False, r))
        for c in calls:
            # a checked access with the value (`data.get(..n)`, `split_at_checked(n)`, `checked_*`) is the bound test itself
            if c.block in reach and CHECKED_ACCESS.search(c.name):
                r = set()
                for a in c.args[1:]:
                    r |= op_taint(a)
                if r:
                    guards.append((c.block, True, r))
            if c.block in reach and (CMP_CALL.search(c.path) or CMP_CALL.search(c.name)):
                if any(m.startswith("debug_assert") for m in c.macros):
                    continue
                r = set()
                for a in c.args:
                    r |= op_taint(a)
                if r:
                    guards.append((c.block, True, r))

        def unguarded(roots, block):
            out = set(roots)
            for gb, strict, r in guards:
                if not (out & r):
                    continue
                if fn.dominates(gb, block) and (gb != block or not strict):
                    out -= r
            return out

        own = []
        S.param_sinks = dict(S.param_sinks)

        def sink(block, roots, what, line):
            self.stats["sinks_seen"] += 1
            bad = unguarded(roots, block)
            for r in bad:
                if r[0] == "param":
                    S.param_sinks.setdefault(r[1], "%s in %s" % (what, fn.name))
                else:
                    own.append({
                        "fn": fn.name, "file": fn.file, "line": line, "sink": what, "source": src_desc.get(r, "?"),
                        "key": "urc|%s|%s|%s" % (fn.name, what, short(src_desc.get(r, "?"))),
                    })

        for bi in reach:
            t = fn.term(bi)
            ex = assert_extra(t)
            if ex is not None and t[3] == "bounds":
                roots = op_taint(ex[1])
                if roots:
                    sink(bi, roots, "index[]", t[6])
        for c in calls:
            if c.block not in reach:
                continue
            if INDEX_CALL.search(c.path) and len(c.args) >= 2:
                roots = op_taint(c.args[1])
                if roots:
                    sink(c.block, roots, "Index::index", c.line)
            elif self.alloc_sinks and (ALLOC_CALL.search(c.name) or ALLOC_CALL.search(c.path)) and c.args:
                a = c.args[0] if re.search(r"::with_capacity(_in)?$", c.name) else (c.args[1] if len(c.args) > 1 else None)
                if c.name.endswith("::from_elem") and len(c.args) > 1:
                    a = c.args[1]
                roots = op_taint(a) if a is not None else set()
                if roots:
                    sink(c.block, roots, "alloc " + short(c.name), c.line)
            elif SINK_CALL.search(c.path) or SINK_CALL.search(c.name):
                roots = set()
                for a in c.args[1:]:
                    roots |= op_taint(a)
                if roots:
                    sink(c.block, roots, short(c.name), c.line)
            else:
                summ, callee = self.callee_summary(c)
                if summ is not None and summ.param_sinks:
                    for i, desc in summ.param_sinks.items():
                        if isinstance(i, int) and i - 1 < len(c.args):
                            roots = op_taint(c.args[i - 1])
                            if roots:
                                sink(c.block, roots, "arg%d of %s -> %s" % (i, short(callee.name), desc.split(" in ")[0]), c.line)
        # closures: a captured value that reaches a sink inside the closure body is a sink where the closure is built
        for bi in reach:
            for s in fn.stmts(bi):
                if s[0] == "a" and s[2][0] == "agg" and s[2][1] == "closure" and s[2][2] in self.byname:
                    cs = self.summ[self.byname[s[2][2]].key]
                    for i, desc in cs.param_sinks.items():
                        if isinstance(i, tuple) and i[0] == 1 and i[1][1:].isdigit() and int(i[1][1:]) < len(s[2][4]):
                            roots = op_taint(s[2][4][int(i[1][1:])])
                            if roots:
                                sink(bi, roots, "captured by %s -> %s" % (short(s[2][2]), desc.split(" in ")[0]), s[3])
        # return taint
        ret_src = False
        ret_params = set()
        for (bi, si, kind, payload) in (fn.defs().get(0, []) if carr[0] else []):
            if kind == "a":
                pl, rv = payload
                roots = set()
                if rv[0] == "bin" and rv[1] in NO_TAINT_BIN:
                    roots = set()
                else:
                    for op in rvalue_operands(rv):
                        roots |= op_taint(op)
                    if rv[0] in ("ref", "rawptr"):
                        roots |= taint.get(rv[2][0], set())
            else:
                c = payload
                # the dest taint of this call was computed above; approximate by taint[_0] contributions of this call
                roots = set()
                summ, callee = self.callee_summary(c)
                nm = c.name
                if SOURCE_EXT.search(nm) or SOURCE_EXT.search(c.path) or (self.extra_sources and self.extra_sources.search(nm)):
                    if not (self.ignore_sources and self.ignore_sources(fn, c)):
                        roots.add(("src", c.block))
                elif summ is not None:
                    if summ.ret_src:
                        roots.add(("src", c.block))
                    for i in summ.ret_params:
                        if isinstance(i, int) and i - 1 < len(c.args):
                            roots |= op_taint(c.args[i - 1])
                elif not (SANITIZER.search(nm) or SANITIZER.search(c.path) or CMP_CALL.search(c.path)):
                    for a in c.args:
                        roots |= op_taint(a)
                        cn = a.get("closure") or a.get("fn") or (closure_of.get(a["p"][0]) if "p" in a and len(a["p"]) == 1 else None)
                        if cn and cn in self.byname and self.summ[self.byname[cn].key].ret_src:
                            roots.add(("src", c.block))
            for r in unguarded(roots, bi):
                if r[0] == "param":
                    ret_params.add(r[1])
                else:
                    ret_src = True
        # field-sensitive view of (Ok/Some-wrapped) tuple results
        rf_ok, rf_wrap, rf_fields = True, None, {}
        defs_all = fn.defs()

        def tuple_of(op, depth=0):
            if "p" not in op or len(op["p"]) != 1 or depth > 3:
                return None
            ds = [d for d in defs_all.get(op["p"][0], []) if d[2] == "a"]
            if len(ds) != 1 or len(defs_all.get(op["p"][0], [])) != 1:
                return None
            rv = ds[0][3][1]
            if rv[0] == "agg" and rv[1] == "tuple" and rv[4]:
                return (ds[0][0], rv[4])
            if rv[0] == "use":
                return tuple_of(rv[1], depth + 1)
            return None

        for (bi, si, kind, payload) in (defs_all.get(0, []) if carr[0] else []):
            if kind == "call":
                if not re.search(r"FromResidual(<.*>)?>?::from_residual$", payload.name):
                    rf_ok = False
                continue
            pl, rv = payload
            if len(pl) != 1:
                rf_ok = False
                continue
            if rv[0] == "agg" and rv[1] == "adt" and rv[3] in ("Err", "None"):
                continue
            tup, wrap = None, None
            if rv[0] == "agg" and rv[1] == "adt" and rv[3] in ("Ok", "Some") and len(rv[4]) == 1:
                tup, wrap = tuple_of(rv[4][0]), 1
            elif rv[0] == "agg" and rv[1] == "tuple" and rv[4]:
                tup, wrap = (bi, rv[4]), 0
            if tup is None or (rf_wrap is not None and rf_wrap != wrap):
                rf_ok = False
                continue
            rf_wrap = wrap
            for k_, o in enumerate(tup[1]):
                t_ = any(r[0] != "param" for r in unguarded(op_taint(o), tup[0]))
                rf_fields[k_] = rf_fields.get(k_, False) or t_
        S.ret_fields = (rf_wrap, rf_fields) if (rf_ok and rf_wrap is not None and rf_fields) else None
        S.ret_src = S.ret_src or ret_src
        S.ret_params |= ret_params
        S.own_findings = own
        self.stats["fns"] = len(self.scope)


def short(n):
    n = re.sub(r"<[^<>]*>", "", n)
    n = re.sub(r"<[^<>]*>", "", n)
    return "::".join(n.split("::")[-2:])
