"""URC — untrusted-integer range checker (Engler et al.'s range checker specialised to this repo).

sources : integers decoded from input bytes (external decode calls, and workspace functions whose
          summary says they return such a value without bounding it)
sinks   : slice/Vec index and split positions (MIR bounds-check asserts, Index/IndexMut calls with
          a tainted index or range, split_at/split_off/drain/copy_within/remove/advance ...)
guards  : a dominating ordering comparison (<,<=,>,>=; PartialOrd/Ord calls) one of whose operands
          derives from the same source; `min`/`clamp`/`checked_*`/`get`/`try_from`/`%`/`&` bound the
          value.  Comparisons that come from debug_assert* expansions are not guards.
Interprocedural through summaries (return-taint, param->return, param->sink) to a fixpoint.
"""
import re
from collections import defaultdict
from .facts import rvalue_operands

SOURCE_EXT = re.compile(
    r"(::from_be_bytes$|::from_le_bytes$|::from_ne_bytes$|::from_str_radix$|^btoi::|byteorder::.*::read_[ui]\d+|"
    r"ReadBytesExt::read_[ui]\d+|core::str::<impl str>::parse$|::from_ascii_radix$|::from_ascii$)"
)
SANITIZER = re.compile(
    r"(::min$|::clamp$|::checked_\w+$|::try_from$|::try_into$|::get$|::get_mut$|::get_unchecked|::position$|::find\w*$|"
    r"::len$|::is_empty$|::capacity$|::count$|::rem_euclid$|::saturating_sub$|::wrapping_\w+$|::overflowing_\w+$|::first$|::last$|"
    r"::iter$|::into_iter$|::as_ptr$|::to_string$|::fmt$|::leading_zeros$|::trailing_zeros$|::count_ones$)"
)
CMP_CALL = re.compile(r"(PartialOrd(<[^>]*>)?>?::(lt|le|gt|ge|partial_cmp)$|Ord>?::cmp$|::cmp$|::partial_cmp$)")
SINK_CALL = re.compile(
    r"(::split_at(_mut)?$|::split_off$|::drain$|::copy_within$|alloc::vec::Vec::<T, A>::(remove|swap_remove|insert|truncate_front)$|"
    r"::split_to$|::advance$|::split_at_unchecked$|::split_first_chunk|::split_last_chunk)"
)
INDEX_CALL = re.compile(r"ops::index::Index(Mut)?(<[^>]*>)?>?::index(_mut)?$")
ORD_OPS = {"Lt", "Le", "Gt", "Ge"}
NO_TAINT_BIN = {"Lt", "Le", "Gt", "Ge", "Eq", "Ne", "Rem", "BitAnd", "Cmp"}
INTEGERISH = re.compile(r"^(u8|u16|u32|u64|u128|usize|i8|i16|i32|i64|i128|isize)$")
# types that cannot carry a decoded integer: byte/str containers, bool, unit, readers/writers (bare generics)
NO_INT_TY = re.compile(
    r"^(&(mut )?)*(\[u8\]|\[u8; \d+\]|str|bool|\(\)|char|!|f32|f64|bstr::bstr::BStr|bstr::bstring::BString|alloc::string::String|"
    r"alloc::vec::Vec<u8>|std::path::Path|std::path::PathBuf|std::ffi::os_str::OsStr|std::ffi::os_str::OsString|"
    r"[A-Z][A-Za-z0-9]{0,2}|impl [^,]*|std::io::error::Error|alloc::borrow::Cow<'_, (bstr::bstr::BStr|str|\[u8\])>|"
    r"core::option::Option<&(mut )?(\[u8\]|str|bstr::bstr::BStr)>)$"
)


def carries_int(ty):
    return not NO_INT_TY.match(ty)


class Summary:
    __slots__ = ("ret_src", "ret_params", "param_sinks", "own_findings")

    def __init__(self):
        self.ret_src = False          # returns a value derived from an unbounded source
        self.ret_params = set()       # params whose taint reaches the return value unbounded
        self.param_sinks = {}         # param idx -> description of the sink it reaches unbounded
        self.own_findings = []

    def key(self):
        return (self.ret_src, frozenset(self.ret_params), frozenset(self.param_sinks))


def assert_extra(t):
    if t[0] == "assert" and isinstance(t[-1], list) and len(t[-1]) == 2 and isinstance(t[-1][0], dict):
        return t[-1]
    return None


class URC:
    def __init__(self, db, scope_fns, extra_sources=None, ignore_sources=None):
        self.db = db
        self.scope = {f.key: f for f in scope_fns}
        self.byname = {}
        for f in scope_fns:
            self.byname.setdefault(f.name, f)
        self.extra_sources = extra_sources
        self.ignore_sources = ignore_sources
        self.summ = {k: Summary() for k in self.scope}
        self.stats = defaultdict(int)

    def run(self, max_rounds=8):
        for rnd in range(max_rounds):
            changed = False
            for k, f in self.scope.items():
                before = self.summ[k].key()
                self.analyze(f)
                if self.summ[k].key() != before:
                    changed = True
            self.stats["rounds"] = rnd + 1
            if not changed:
                break
        findings = []
        for k in self.scope:
            findings.extend(self.summ[k].own_findings)
        return findings

    def callee_summary(self, call):
        for n in (call.callee.get("res"), call.callee.get("path")):
            if n and n in self.byname:
                return self.summ[self.byname[n].key], self.byname[n]
        return None, None

    def analyze(self, fn):
        S = self.summ[fn.key]
        taint = defaultdict(set)        # local -> set(root)
        carr = [carries_int(t) for t in fn.locals]
        for i in range(1, fn.argc + 1):
            if carr[i]:
                taint[i].add(("param", i))
        calls = fn.calls()
        reach = fn.reachable_blocks()

        def op_taint(op):
            if "p" in op:
                return taint.get(op["p"][0], set())
            return set()

        src_desc = {}
        changed = True
        it = 0
        while changed and it < 50:
            it += 1
            changed = False
            for bi in reach:
                for s in fn.stmts(bi):
                    if s[0] != "a":
                        continue
                    pl, rv = s[1], s[2]
                    k = rv[0]
                    add = set()
                    if k in ("use", "cast", "repeat", "un"):
                        for op in rvalue_operands(rv):
                            add |= op_taint(op)
                    elif k == "bin":
                        if rv[1] not in NO_TAINT_BIN:
                            add |= op_taint(rv[2]) | op_taint(rv[3])
                    elif k == "agg":
                        for op in rv[4]:
                            add |= op_taint(op)
                    elif k in ("ref", "rawptr"):
                        add |= taint.get(rv[2][0], set())
                    if add and carr[pl[0]] and not add <= taint[pl[0]]:
                        taint[pl[0]] |= add
                        changed = True
            for c in calls:
                if c.block not in reach:
                    continue
                add = set()
                nm = c.name
                summ, callee = self.callee_summary(c)
                is_src = (SOURCE_EXT.search(nm) or SOURCE_EXT.search(c.path) or (self.extra_sources and self.extra_sources.search(nm)))
                if is_src and self.ignore_sources and self.ignore_sources(fn, c):
                    is_src = False
                if is_src:
                    r = ("src", c.block)
                    src_desc[r] = nm
                    add.add(r)
                elif summ is not None:
                    if summ.ret_src:
                        r = ("src", c.block)
                        src_desc[r] = nm
                        add.add(r)
                    for i in summ.ret_params:
                        if i - 1 < len(c.args):
                            add |= op_taint(c.args[i - 1])
                elif SANITIZER.search(nm) or SANITIZER.search(c.path) or CMP_CALL.search(c.path):
                    pass
                else:
                    for a in c.args:
                        add |= op_taint(a)
                if add and carr[c.dest[0]] and not add <= taint[c.dest[0]]:
                    taint[c.dest[0]] |= add
                    changed = True
        # guards: (block, roots)
        guards = []
        for bi in reach:
            for s in fn.stmts(bi):
                if s[0] == "a" and s[2][0] == "bin" and s[2][1] in ORD_OPS:
                    macros = s[4] if len(s) > 4 else []
                    if any(m.startswith("debug_assert") for m in macros):
                        continue
                    r = op_taint(s[2][2]) | op_taint(s[2][3])
                    if r:
                        guards.append((bi, False, r))
        for c in calls:
            if c.block in reach and (CMP_CALL.search(c.path) or CMP_CALL.search(c.name)):
                if any(m.startswith("debug_assert") for m in c.macros):
                    continue
                r = set()
                for a in c.args:
                    r |= op_taint(a)
                if r:
                    guards.append((c.block, True, r))

        def unguarded(roots, block):
            out = set(roots)
            for gb, strict, r in guards:
                if not (out & r):
                    continue
                if fn.dominates(gb, block) and (gb != block or not strict):
                    out -= r
            return out

        own = []
        S.param_sinks = dict(S.param_sinks)

        def sink(block, roots, what, line):
            self.stats["sinks_seen"] += 1
            bad = unguarded(roots, block)
            for r in bad:
                if r[0] == "param":
                    S.param_sinks.setdefault(r[1], "%s in %s" % (what, fn.name))
                else:
                    own.append({
                        "fn": fn.name, "file": fn.file, "line": line, "sink": what, "source": src_desc.get(r, "?"),
                        "key": "urc|%s|%s|%s" % (fn.name, what, short(src_desc.get(r, "?"))),
                    })

        for bi in reach:
            t = fn.term(bi)
            ex = assert_extra(t)
            if ex is not None and t[3] == "bounds":
                roots = op_taint(ex[1])
                if roots:
                    sink(bi, roots, "index[]", t[6])
        for c in calls:
            if c.block not in reach:
                continue
            if INDEX_CALL.search(c.path) and len(c.args) >= 2:
                roots = op_taint(c.args[1])
                if roots:
                    sink(c.block, roots, "Index::index", c.line)
            elif SINK_CALL.search(c.path) or SINK_CALL.search(c.name):
                roots = set()
                for a in c.args[1:]:
                    roots |= op_taint(a)
                if roots:
                    sink(c.block, roots, short(c.name), c.line)
            else:
                summ, callee = self.callee_summary(c)
                if summ is not None and summ.param_sinks:
                    for i, desc in summ.param_sinks.items():
                        if i - 1 < len(c.args):
                            roots = op_taint(c.args[i - 1])
                            if roots:
                                sink(c.block, roots, "arg%d of %s -> %s" % (i, short(callee.name), desc.split(" in ")[0]), c.line)
        # return taint
        ret_src = False
        ret_params = set()
        for (bi, si, kind, payload) in (fn.defs().get(0, []) if carr[0] else []):
            if kind == "a":
                pl, rv = payload
                roots = set()
                if rv[0] == "bin" and rv[1] in NO_TAINT_BIN:
                    roots = set()
                else:
                    for op in rvalue_operands(rv):
                        roots |= op_taint(op)
                    if rv[0] in ("ref", "rawptr"):
                        roots |= taint.get(rv[2][0], set())
            else:
                c = payload
                # the dest taint of this call was computed above; approximate by taint[_0] contributions of this call
                roots = set()
                summ, callee = self.callee_summary(c)
                nm = c.name
                if SOURCE_EXT.search(nm) or SOURCE_EXT.search(c.path) or (self.extra_sources and self.extra_sources.search(nm)):
                    if not (self.ignore_sources and self.ignore_sources(fn, c)):
                        roots.add(("src", c.block))
                elif summ is not None:
                    if summ.ret_src:
                        roots.add(("src", c.block))
                    for i in summ.ret_params:
                        if i - 1 < len(c.args):
                            roots |= op_taint(c.args[i - 1])
                elif not (SANITIZER.search(nm) or SANITIZER.search(c.path) or CMP_CALL.search(c.path)):
                    for a in c.args:
                        roots |= op_taint(a)
            for r in unguarded(roots, bi):
                if r[0] == "param":
                    ret_params.add(r[1])
                else:
                    ret_src = True
        S.ret_src = S.ret_src or ret_src
        S.ret_params |= ret_params
        S.own_findings = own
        self.stats["fns"] = len(self.scope)


def short(n):
    n = re.sub(r"<[^<>]*>", "", n)
    n = re.sub(r"<[^<>]*>", "", n)
    return "::".join(n.split("::")[-2:])
