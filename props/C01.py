"""C01 Object encoding declares its exact size — AI-int on Time::size, header provenance (FLOW), size/write_to term agreement."""
import re
from gx import aiint, tab
from gx.flow import Flow, comparisons

TECHNIQUE = "abstract interpretation of the integer size ladder (piecewise-constant extraction checked against the decimal-length law), provenance of loose-header size arguments, keyword/field agreement between size() and write_to()"
EXPLANATION = ("(1) gix_date::Time::size is abstractly interpreted over all i64 seconds: the piecewise-constant table it computes must cover i64 and "
               "equal decimal_len(seconds)+6 at both ends of every interval (decimal length is monotone on each side of zero), and Time::write_to must emit "
               "itoa(seconds), SP, a one-byte sign, and two zero-padded 2-digit fields with hours bounded by 99; (2) every loose-object header is built by "
               "encode::loose_header from the size()/len() of the very value that is then written or hashed; (3) for each WriteTo impl the set of header "
               "keywords and the set of self fields/accessors used by size() equals the set used by write_to(); Signature sizes use name, email and time on "
               "both sides. (4) every constant that write_to() emits only under a condition on some fields is counted by size() under a condition on the same fields. Decode-equals-value and that ids equal git's are not decided.")
OBJ = r"^gix_object::(commit|tag|tree)::write::<impl gix_object::traits::WriteTo for gix_object::(\w+)(<'_>)?>::%s$"
ALIAS = {"tree()": "tree", "parents()": "parents", "target()": "target", "to_ref()": None}


def words(db, f):
    """(keyword constants, self fields/accessors) used by f and its closures"""
    kws, flds = set(), set()
    for g in [f] + db.closures_of(f):
        if g.kind == "promoted":
            continue
        fl = Flow(g)
        for bi in g.reachable_blocks():
            if g.is_cleanup(bi):
                continue
            for s in g.stmts(bi):
                if s[0] != "a" or (len(s) > 4 and any(m.startswith("debug_assert") for m in s[4])):
                    continue
                for op in [o for o in __import__("gx.facts", fromlist=["x"]).rvalue_operands(s[2])]:
                    if "bytes" in op and "p" not in op:
                        b = bytes.fromhex(op["bytes"])
                        if re.fullmatch(rb"[a-z]{3,12}", b):
                            kws.add(b.decode())
                pls = __import__("gx.facts", fromlist=["x"]).rvalue_places(s[2])
                for p in pls:
                    if g is f and p[0] == 1 and len(p) >= 3 and p[1] == "*" and p[2].startswith("."):
                        flds.add(p[2][1:])
            t = g.term(bi)
            if t[0] == "call":
                if len(t) > 7 and any(m.startswith("debug_assert") for m in t[7]):
                    continue
                for a in t[2]:
                    if "bytes" in a and "p" not in a:
                        b = bytes.fromhex(a["bytes"])
                        if re.fullmatch(rb"[a-z]{3,12}", b):
                            kws.add(b.decode())
                nm = t[1].get("res") or t[1].get("path", "")
                m = re.search(r"gix_object::(commit|tag)::<impl gix_object::(CommitRef|TagRef|Commit|Tag)(<'a>)?>::(tree|parents|target|extra_headers|author|committer)()$", nm)
                if m and g is f:
                    flds.add(m.group(4))
    # closures read captured self fields through upvars: add fields named in the parent's closure captures
    for bi, si, pl, rv, ln, mc in f.assigns():
        if rv[0] == "ref" and rv[2][0] == 1 and len(rv[2]) >= 3 and rv[2][2].startswith("."):
            flds.add(rv[2][2][1:])
    return kws, flds


def run(db, chk):
    line_splitter_agreement(db, chk)
    separator_guard_agreement(db, chk)
    # (1) Time::size ladder
    ts = db.one(r"^gix_date::time::write::<impl gix_date::Time>::size$")
    try:
        pw = aiint.piecewise(ts, lambda p: p == [1, "*", ".seconds"], -2 ** 63, 2 ** 63 - 1)
    except aiint.Unsupported as e:
        chk.ob("size-ladder-extractable", "Time::size", False, str(e), "%s:%d" % (ts.file, ts.line), key="size-ladder-extractable")
        pw = []
    chk.floor("Time::size intervals", len(pw), 2)
    chk.set("time_size_intervals", len(pw))
    cover = bool(pw) and pw[0][0] == -2 ** 63 and pw[-1][1] == 2 ** 63 - 1 and all(pw[i][1] + 1 == pw[i + 1][0] for i in range(len(pw) - 1))
    chk.ob("size-ladder-total", "Time::size covers i64", cover, "", "%s:%d" % (ts.file, ts.line), key="size-ladder-total")
    for lo, hi, v in pw:
        ok = v - 6 == aiint.decimal_len(lo) == aiint.decimal_len(hi)
        chk.ob("size-equals-decimal-length", "seconds in [%d, %d] -> %d" % (lo, hi, v), ok,
               "written length is %d..%d (+6)" % (aiint.decimal_len(lo), aiint.decimal_len(hi)), "%s:%d" % (ts.file, ts.line), key="time-size|%d..%d" % (lo, hi))
    chk.sample({"ladder": pw[:3] + pw[-3:]})
    # Time::write_to shape
    tw = db.one(r"^gix_date::time::write::<impl gix_date::Time>::write_to$")
    fl = Flow(tw)
    wa = tw.calls_to(r"io::Write::write_all$")
    fmt = tw.calls_to(r"itoa::Buffer::format$")
    chk.ob("time-write-shape", "Time::write_to emits 7 pieces", len(wa) == 7 and len(fmt) == 3, "write_all x%d, itoa x%d (expected 7 and 3)" % (len(wa), len(fmt)), "%s:%d" % (tw.file, tw.line), key="time-write-shape")
    first_fmt = [c for c in fmt if any(r[0] == "arg" and ".seconds" in r[2] for r in fl.roots(c.args[1], stop_named=False))]
    chk.ob("time-write-shape", "seconds written through itoa", len(first_fmt) == 1, "", "%s:%d" % (tw.file, tw.line), key="time-write-seconds")
    one_byte = 0
    for c in wa:
        cs = {x for x in fl.const_roots(c.args[1]) if isinstance(x, bytes)}
        if cs and all(len(x) == 1 for x in cs):
            one_byte += 1
    chk.ob("time-write-shape", "SP, sign and two pad bytes are 1-byte constants", one_byte == 4, "%d one-byte constant writes" % one_byte, "%s:%d" % (tw.file, tw.line), key="time-write-constants")
    cm = {(c["op"], c["b"].get("v")) for c in comparisons(tw) if "p" not in c["b"]}
    chk.ob("time-write-shape", "hours bounded by 99, pads below 10", ("Gt", 99) in cm and sum(1 for c in comparisons(tw) if c["op"] == "Lt" and c["b"].get("v") == 10) == 2, str(sorted(cm, key=str)), "%s:%d" % (tw.file, tw.line), key="time-write-bounds")
    # Signature
    ss = db.one(r"^gix_actor::signature::write::<impl gix_actor::SignatureRef<'_>>::size$")
    sw = db.one(r"^gix_actor::signature::write::<impl gix_actor::SignatureRef<'_>>::write_to$")
    f1 = {p[2] for s in ss.blocks for st in s["s"] if st[0] == "a" for p in __import__("gx.facts", fromlist=["x"]).rvalue_places(st[2]) if p[0] == 1 and len(p) > 2}
    f2 = {p[2] for s in sw.blocks for st in s["s"] if st[0] == "a" for p in __import__("gx.facts", fromlist=["x"]).rvalue_places(st[2]) if p[0] == 1 and len(p) > 2}
    chk.ob("size-write-term-agreement", "SignatureRef fields", f1 == f2 == {".name", ".email", ".time"}, "size uses %s, write_to uses %s" % (sorted(f1), sorted(f2)), "%s:%d" % (ss.file, ss.line), key="term-agreement|SignatureRef")
    sc = {x for c in sw.calls_to(r"io::Write::write_all$") for x in Flow(sw).const_roots(c.args[1]) if isinstance(x, bytes)}
    tot = sum(len(x) for x in sc)
    sconst = sum(k[1] * n for k, n in tab.arith_signature(ss, ("Add",)).items())
    chk.ob("size-write-term-agreement", "SignatureRef separators", tot == sconst == 4, "write_to constant bytes %d, size constants %d" % (tot, sconst), "%s:%d" % (ss.file, ss.line), key="term-agreement|SignatureRef-const")
    # (3) objects
    n = 0
    for f in db.by_crate["gix_object"]:
        m = re.match(OBJ % "size", f.name)
        if not m:
            continue
        w = db.one("^" + re.escape(f.name[:-len("size")]) + "write_to$")
        n += 1
        ks, fs = words(db, f)
        kw, fw = words(db, w)
        chk.ob("size-write-term-agreement", "%s keywords" % m.group(2), ks == kw, "size() %s vs write_to() %s" % (sorted(ks), sorted(kw)), "%s:%d" % (f.file, f.line), key="term-agreement|%s|kw" % m.group(2) + (m.group(3) or ""))
        chk.ob("size-write-term-agreement", "%s fields" % m.group(2), fs == fw, "size() %s vs write_to() %s" % (sorted(fs), sorted(fw)), "%s:%d" % (f.file, f.line), key="term-agreement|%s|fields" % m.group(2) + (m.group(3) or ""))
    chk.floor("WriteTo impls with non-trivial size()", n, 6)
    # (2) loose header provenance
    lh = db.one(r"^gix_object::traits::WriteTo::loose_header$")
    c = lh.calls_to(r"encode::loose_header$")
    ok = len(c) == 1 and Flow(lh).derives_from_call(c[0].args[1], r"WriteTo::size$") and Flow(lh).derives_from_call(c[0].args[0], r"WriteTo::kind$")
    chk.ob("header-from-own-size", "WriteTo::loose_header", ok, "must be encode::loose_header(self.kind(), self.size())", "%s:%d" % (lh.file, lh.line), key="header-from-own-size|trait")
    sites = [(r"^gix_object::compute_hash$", 3, "len"), (r"^gix_object::compute_stream_hash$", 4, None),
             (r"loose::write::<impl gix_odb::traits::Write for gix_odb::store_impls::loose::Store>::write_buf$", 3, "len"),
             (r"loose::write::<impl gix_odb::traits::Write for gix_odb::store_impls::loose::Store>::write_stream$", 3, None)]
    for pat, arg, via in sites:
        f = db.one(pat)
        fl2 = Flow(f)
        cs = f.calls_to(r"encode::loose_header$")
        ok = len(cs) == 1
        if ok:
            r = fl2.roots(cs[0].args[1], stop_named=False)
            ok = any(x[0] == "arg" and x[1] == arg for x in r) and (via is None or fl2.derives_from_call(cs[0].args[1], r"::len$"))
        chk.ob("header-from-own-size", f.name.split("::")[-1], ok, "size argument of loose_header must derive from parameter %d%s" % (arg, " via len()" if via else ""), "%s:%d" % (f.file, f.line), key="header-from-own-size|%s" % f.name.split("::")[-1])
    w = db.one(r"loose::write::<impl gix_odb::traits::Write for gix_odb::store_impls::loose::Store>::write$")
    fl3 = Flow(w)
    hdr = w.calls_to(r"WriteTo::loose_header$")
    body = w.calls_to(r"WriteTo::write_to$")
    ok = len(hdr) == 1 and len(body) == 1 and fl3.root_vars(hdr[0].args[0]) == fl3.root_vars(body[0].args[0]) and w.dominates(hdr[0].block, body[0].block)
    chk.ob("header-from-own-size", "loose::Store::write", ok, "header and body must come from the same object, header first", "%s:%d" % (w.file, w.line), key="header-from-own-size|write")


def line_splitter_agreement(db, chk):
    """size() and write_to() walk multi-line values (extra headers) with the same line-splitting routine: bstr's `lines()` drops `\\r\\n`, `lines_with_terminator()`
    keeps it, `split(b'\\n')` yields a trailing empty piece - if the counting side and the writing side use different ones, the declared size is off for
    exactly the values on which they differ."""
    import re
    from gx.unw import SPLIT_FAMILY
    pairs = [("Commit", r"^gix_object::commit::write::<impl gix_object::traits::WriteTo for gix_object::Commit>::"),
             ("CommitRef", r"^gix_object::commit::write::<impl gix_object::traits::WriteTo for gix_object::CommitRef<'_>>::"),
             ("Tag", r"^gix_object::tag::write::<impl gix_object::traits::WriteTo for gix_object::Tag>::"),
             ("TagRef", r"^gix_object::tag::write::<impl gix_object::traits::WriteTo for gix_object::TagRef<'_>>::")]
    n = 0
    for label, pre in pairs:
        got = {}
        for which in ("size", "write_to"):
            f = db.one(pre + which + "$")
            reach = db.reachable([f.key], stop=lambda nm: not (nm.startswith("gix_object::") or nm.startswith("<gix_object::")))
            fns = [g for g in db.by_crate["gix_object"] if g.key in reach or g.name in reach or g.name.startswith(f.name + "::{closure#")]
            got[which] = sorted({c.name.split("::")[-1] for g in fns for c in g.calls() if SPLIT_FAMILY.search(c.name)})
        if not got["size"] and not got["write_to"]:
            continue
        n += 1
        chk.ob("size-and-writer-split-lines-alike", label, got["size"] == got["write_to"], "size() walks values with %s, write_to() with %s" % (got["size"], got["write_to"]),
               key="line-splitter|%s" % label)
    chk.floor("WriteTo impls that split multi-line values", n, 2)


def separator_guard_agreement(db, chk):
    """conditional separators: a constant (NL, SP) that write_to() emits only when some field is present/non-empty must be counted by size() under
    the SAME condition.  For every direct `write_all(<constant bytes>)` in write_to() the set of self fields its execution depends on (the
    switches that decide whether the call is reached, `?` propagation excluded) has to equal the guard of some constant addend of size(): the
    function body itself (no guard) or a closure handed to Option::map_or/map/... on that field.  `NL only if message and signature` against
    `1 + m.len()` under `signature` is the failing shape: size() is one too large exactly for signed tags without message."""
    from gx.flow import control_switches
    pairs = [("Commit", r"^gix_object::commit::write::<impl gix_object::traits::WriteTo for gix_object::Commit>::"),
             ("CommitRef", r"^gix_object::commit::write::<impl gix_object::traits::WriteTo for gix_object::CommitRef<'_>>::"),
             ("Tag", r"^gix_object::tag::write::<impl gix_object::traits::WriteTo for gix_object::Tag>::"),
             ("TagRef", r"^gix_object::tag::write::<impl gix_object::traits::WriteTo for gix_object::TagRef<'_>>::")]

    def self_fields(f, fl, op):
        return frozenset(r[2][0] for r in fl.roots(op, stop_named=False) if r[0] == "arg" and r[1] == 1 and r[2] and isinstance(r[2][0], str) and r[2][0].startswith("."))

    def guards(f, fl, block):
        g = set()
        for b in control_switches(f, block):
            t = f.term(b)
            meta = t[6] if len(t) > 6 and isinstance(t[6], list) else []
            if any(m == "d:QuestionMark" for m in meta):
                continue
            g |= self_fields(f, fl, t[1])
        return frozenset(g)
    n = 0
    for label, pre in pairs:
        w = db.one(pre + "write_to$")
        s_ = db.one(pre + "size$")
        wfl, sfl = Flow(w), Flow(s_)
        # guards of the constant addends of size()
        sg = set()
        if any(rv[0] == "bin" and rv[1].startswith("Add") and any("p" not in o and isinstance(o.get("v"), int) and o["v"] > 0 for o in (rv[2], rv[3])) for bi, si, pl, rv, ln, mc in s_.assigns()):
            sg.add(frozenset())
        for c in s_.calls():
            if not c.is_(r"Option::<T>::(map_or|map|map_or_else|and_then)$|Iterator>?::(map|fold|filter_map)$|::(map|map_or)$") or len(c.args) < 2:
                continue
            recv = self_fields(s_, sfl, c.args[0])
            for a in c.args[1:]:
                for r in (sfl.roots(a, stop_named=False) if "p" in a else []):
                    if r[0] == "const" and isinstance(r[1], str) and r[1].startswith("agg:"):
                        nm = r[1][4:].rstrip(":")
                        g = next((x for x in db.closures_of(s_) if x.name == nm), None)
                        if g is not None and any(rv[0] == "bin" and rv[1].startswith("Add") and any("p" not in o and isinstance(o.get("v"), int) and o["v"] > 0 for o in (rv[2], rv[3]))
                                                 for bi, si, pl, rv, ln, mc in g.assigns()):
                            sg.add(recv)
        for c in w.calls():
            if not c.is_(r"io::Write::write_all$|Write>?::write_all$") or len(c.args) < 2:
                continue
            r = wfl.roots(c.args[1], stop_named=False)
            is_const = bool(r) and all(x[0] in ("const", "constdef", "promoted") for x in r)
            if not is_const:
                continue
            n += 1
            g = guards(w, wfl, c.block)
            chk.ob("conditional-separator-counted-alike", "%s write_all(const)@%d under %s" % (label, c.line, sorted(g) or "no condition"), g in sg,
                   "write_to() emits a constant under the condition on %s, size() adds constants only under %s: the declared size differs from the bytes written whenever these conditions differ" % (
                       sorted(g) or "nothing", sorted(sorted(x) for x in sg)), c.where(), key="separator-guard|%s" % label)
    chk.floor("direct constant writes in the tag/commit writers", n, 4)
