"""C02 Both commit/tag parsers agree with each other and with the writer — grammar tables (TAB/CG)."""
import re
from gx.flow import Flow
from gx.facts import rvalue_operands

TECHNIQUE = "grammar-table extraction from the two decoders of each object kind (keyword -> value parser, shared parse::* helpers) and the writer's keyword order; tables must agree"
EXPLANATION = ("For commits and tags: the in-memory decoder (commit::decode::commit / tag::decode::git_tag) and the streaming iterator (CommitRefIter / "
               "TagRefIter::next_inner_) are reduced to the table {header keyword -> value-parser function} plus the set of shared gix_object::parse helpers they "
               "use; the two tables and helper sets must be equal, nobody re-implements a header parser privately, and the keywords, in the decoder's order, must "
               "be the order Commit(Ref)/Tag(Ref)::write_to emits them. Both commit decoders parse extra headers by the ordered choice `multi-line, else single-line` "
               "(winnow alt in that order, or an explicit fallback on the failure edge). In the tag message parser every alternative that can yield a signature consumes the newline the writer always emits before it. Byte-exact re-encoding and acceptance of everything git emits are not decided.")
PAIRS = [("commit", r"^gix_object::commit::decode::commit$", r"^gix_object::commit::ref_iter::<impl gix_object::CommitRefIter<'a>>::next_inner_$",
          [r"^gix_object::commit::write::<impl gix_object::traits::WriteTo for gix_object::Commit>::write_to$", r"^gix_object::commit::write::<impl gix_object::traits::WriteTo for gix_object::CommitRef<'_>>::write_to$"],
          ["tree", "parent", "author", "committer", "encoding"]),
         ("tag", r"^gix_object::tag::decode::git_tag$", r"^gix_object::tag::ref_iter::<impl gix_object::TagRefIter<'a>>::next_inner_$",
          [r"^gix_object::tag::write::<impl gix_object::traits::WriteTo for gix_object::Tag>::write_to$", r"^gix_object::tag::write::<impl gix_object::traits::WriteTo for gix_object::TagRef<'_>>::write_to$"],
          ["object", "type", "tag", "tagger"])]
KW = re.compile(rb"[a-z]{3,12}")


def bodies(db, root):
    gs = [root] + db.closures_of(root)
    return gs


def grammar(db, root):
    table, helpers, kws_all, order = {}, set(), set(), []
    for g in bodies(db, root):
        fl = Flow(g)
        for bi, si, pl, rv, ln, mc in g.assigns():
            for op in rvalue_operands(rv):
                if "bytes" in op and KW.fullmatch(bytes.fromhex(op["bytes"])) and not mc:
                    kws_all.add(bytes.fromhex(op["bytes"]).decode())
                if "fn" in op and op["fn"].startswith("gix_object::parse::"):
                    helpers.add(op["fn"].split("::")[-1])
        if g.kind == "promoted":
            continue
        for c in g.calls():
            if c.name.startswith("gix_object::parse::"):
                helpers.add(c.name.split("::")[-1])
            for a in c.args:
                if "fn" in a and a["fn"].startswith("gix_object::parse::"):
                    helpers.add(a["fn"].split("::")[-1])
                if "bytes" in a and KW.fullmatch(bytes.fromhex(a["bytes"])) and not c.macros:
                    kws_all.add(bytes.fromhex(a["bytes"]).decode())
            if c.is_(r"^gix_object::parse::header_field$"):
                kws = sorted(x.decode() for a in c.args for x in fl.const_roots(a) if isinstance(x, bytes) and KW.fullmatch(x))
                vp = sorted({r[1].split("::")[-1] for a in c.args for r in fl.roots(a, stop_named=False) if r[0] == "fnitem"} |
                            {"take_till" for a in c.args for r in fl.roots(a, stop_named=False) if r[0] == "call" and "take_till" in r[1]} |
                            {"take_while" for a in c.args for r in fl.roots(a, stop_named=False) if r[0] == "call" and "take_while" in r[1]})
                for k in kws:
                    table[k] = vp
                    order.append((g.name, c.line, k))
                if not kws:
                    table.setdefault("<variable keyword>", vp)
    return table, helpers, kws_all, order


def extra_header_choice(db, chk, f, label):
    """extra headers are parsed by an ordered choice: the multi-line parser first, the single-line parser as its fallback - either both handed to
    winnow's `alt` in that order, or the single-line call reachable from the failure edge of the multi-line call."""
    fl = Flow(f)
    fam = {g.name: g for g in [f] + db.closures_of(f)}

    def parsers(op):
        got = set()
        for r in fl.roots(op, stop_named=False):
            nm = r[1] if r[0] == "fnitem" else r[1][4:-2] if r[0] == "const" and isinstance(r[1], str) and r[1].startswith("agg:") else None
            if nm is None:
                continue
            todo, seen = [nm], set()
            while todo:
                x = todo.pop()
                if x in seen:
                    continue
                seen.add(x)
                if x.endswith("parse::any_header_field_multi_line"):
                    got.add("multi")
                elif x.endswith("parse::any_header_field"):
                    got.add("single")
                g = fam.get(x)
                if g is not None:
                    for c in g.calls():
                        todo.extend(c.names)
                        for a in c.args:
                            if "fn" in a:
                                todo.append(a["fn"])
                    todo.extend(h.name for h in fam.values() if h.name.startswith(x + "::{closure#"))
        return got
    ok = False
    for c in f.calls_to(r"branch::alt$"):
        l = c.args[0].get("p", [None])[0]
        for bi, si, pl, rv, ln, mc in f.assigns():
            if pl == [l] and rv[0] == "agg" and rv[1] == "tuple" and len(rv[4]) == 2:
                ps = [parsers(op) for op in rv[4]]
                if ps[0] == {"multi"} and ps[1] == {"single"}:
                    ok = True
    if not ok:
        # hand-written fallback: single-line parser call reachable from the Err edge of the multi-line call only
        for g in fam.values():
            gfl = Flow(g)
            ms = g.calls_to(r"parse::any_header_field_multi_line$")
            ss = g.calls_to(r"parse::any_header_field$")
            if ms and ss:
                e = gfl.result_edges(ms[0])
                if e["bad"] and all(gfl.cut_off([x.block], e["bad"], start=ms[0].block) for x in ss):
                    ok = True
    chk.ob("extra-header-ordered-choice", label, ok,
           "extra headers must be parsed by `multi-line, else single-line` (winnow alt in that order, or an explicit fallback on failure); a choice made up front by looking at the input is not equivalent",
           "%s:%d" % (f.file, f.line), key="extra-header-choice|%s" % label)


def run(db, chk):
    tag_signature_separator_rule(db, chk)
    extra_header_choice(db, chk, db.one(r"^gix_object::commit::decode::commit$"), "commit decoder")
    extra_header_choice(db, chk, db.one(r"^gix_object::commit::ref_iter::<impl gix_object::CommitRefIter<.a>>::next_inner_$"), "CommitRefIter")
    for kind, dpat, ipat, wpats, spec in PAIRS:
        d, it = db.one(dpat), db.one(ipat)
        td, hd, kd, od = grammar(db, d)
        ti, hi, ki, oi = grammar(db, it)
        chk.ob("decoders-share-keywords", "%s: keyword set" % kind, set(spec) <= kd and set(spec) <= ki and (kd & set(spec + ["gpgsig", "mergetag"])) == (ki & set(spec + ["gpgsig", "mergetag"])),
               "decoder %s iterator %s expected %s" % (sorted(kd), sorted(ki), spec), "%s:%d" % (it.file, it.line), key="keywords|%s" % kind)
        chk.ob("decoders-share-helpers", "%s: parse::* helpers" % kind, hd == hi and "header_field" in hd, "decoder %s iterator %s" % (sorted(hd), sorted(hi)), "%s:%d" % (it.file, it.line), key="helpers|%s" % kind)
        for k in spec:
            vd = td.get(k)
            vi = ti.get(k, ti.get("<variable keyword>"))
            chk.ob("same-value-parser", "%s: %s" % (kind, k), vd is not None and vd == vi, "decoder parses with %s, iterator with %s" % (vd, vi), "%s:%d" % (it.file, it.line), key="value-parser|%s|%s" % (kind, k))
        # decoder order == spec order (source order of the sequence tuple)
        seq = [k for _, _, k in sorted(od, key=lambda x: x[1])]
        chk.ob("decoder-order", "%s decode order" % kind, seq == spec, "decoder parses %s, format order %s" % (seq, spec), "%s:%d" % (d.file, d.line), key="decoder-order|%s" % kind)
        for wp in wpats:
            w = db.one(wp)
            fl = Flow(w)
            calls = [c for c in w.calls() if c.is_(r"^gix_object::encode::")]
            calls.sort(key=lambda c: sum(1 for x in calls if w.dominates(x.block, c.block)))
            wseq = []
            for c in calls:
                for x in fl.const_roots(c.args[0]):
                    if isinstance(x, bytes) and KW.fullmatch(x) and x.decode() not in wseq:
                        wseq.append(x.decode())
            chk.ob("writer-order", "%s" % w.name.split("for ")[-1], wseq == spec, "writer emits %s, decoders expect %s" % (wseq, spec), "%s:%d" % (w.file, w.line), key="writer-order|%s" % w.name)
        chk.sample({"kind": kind, "decoder": td, "iterator": ti, "helpers": sorted(hd)})
    # nobody else in gix_object re-implements header parsing: callers of parse::header_field are the four decoders' closures
    callers = sorted({re.sub(r"::\{closure#\d+\}.*$", "", f.name) for f in db.by_crate["gix_object"] for c in f.calls() if c.is_(r"^gix_object::parse::header_field$")})
    chk.ob("single-header-parser", "callers of parse::header_field", len(callers) == 4, str(callers), key="single-header-parser")


def tag_signature_separator_rule(db, chk):
    """the tag writer puts a newline between message and signature unconditionally; the reader has to ask for exactly that newline whenever it
    recognises a signature, or a tag it decodes as (message, Some(signature)) is written back with one byte more (or less) than it had.  In
    tag::decode::message every alternative handed to winnow's `alt` that can yield a signature (it refers to PGP_SIGNATURE_END, directly or through
    a helper parser) also goes through `preceded(NL, ..)`; alternatives that cannot yield one are unconstrained."""
    f = db.one(r"^gix_object::tag::decode::message$")
    fl = Flow(f)
    helpers = {g.name: g for g in db.by_crate["gix_object"] if g.kind != "promoted" and "::tag::decode::" in g.name}

    def mentions(op):
        r = fl.roots(op, stop_named=False)
        sig = any(x[0] == "constdef" and x[1].endswith("PGP_SIGNATURE_END") for x in r)
        pre = any(x[0] == "call" and x[1].endswith("::preceded") for x in r) and any(x[0] == "constdef" and x[1].endswith("::NL") for x in r)
        for x in r:
            if x[0] == "fnitem" and x[1] in helpers:
                h = helpers[x[1]]
                hfl = Flow(h)
                if any(any(y[0] == "constdef" and y[1].endswith("PGP_SIGNATURE_END") for y in hfl.roots(a, stop_named=False)) for c in h.calls() for a in c.args if "p" in a) or \
                        any("PGP_SIGNATURE_END" in str(rv) for bi, si, pl, rv, ln, mc in h.assigns()):
                    sig = True
        return sig, pre
    n = 0
    for c in f.calls_to(r"branch::alt$"):
        l = c.args[0].get("p", [None])[0]
        for bi, si, pl, rv, ln, mc in f.assigns():
            if pl == [l] and rv[0] == "agg" and rv[1] == "tuple":
                for i, op in enumerate(rv[4]):
                    sig, pre = mentions(op)
                    if not sig:
                        continue
                    n += 1
                    chk.ob("tag-signature-follows-newline", "tag::decode::message alternative #%d" % i, pre,
                           "this alternative recognises a signature without consuming the newline the writer always puts in front of it: such a tag is re-encoded one byte longer and gets a different id",
                           "%s:%d" % (f.file, ln), key="tag-sig-separator|%d" % i)
    chk.floor("tag message parser: alternatives that yield a signature", n, 1)
