"""C03 Tree entry ordering — the three comparators agree in shape and use git's directory rule (TAB/CG); bisect uses the same comparator."""
import re
from collections import Counter
from gx.facts import rvalue_operands
from gx.flow import Flow

TECHNIQUE = "sibling agreement of comparator implementations (callee multiset, byte constants, is_tree predicate) and resolved-callee check for the lookup"
EXPLANATION = ("Every tree-entry comparator (Ord for tree::EntryRef, Ord for tree::Entry, the tree editor's cmp_entry_with_name) must compare the common "
               "prefix of min(len) bytes first (min, index, cmp, then_with) and break ties with get(common).or_else(is_tree.then_some(b'/')), using exactly one "
               "byte constant, b'/', and the mode's is_tree predicate (the editor: its is_tree argument for the probe side); the three callee "
               "multisets must be equal up to deref noise. TreeRef::bisect_entry must search with <EntryRef as Ord>::cmp against a probe whose mode is "
               "Tree on is_dir and Blob otherwise. The tree editor keeps trees sorted by inserting at a binary-search index: some decision in that index computation must derive from "
               "the kind of the inserted entry (argument kind_and_id, captures resolved through nested closures), and it re-sorts after type changes. That this order is git's for all names is by construction of base_name_compare and not re-proved. Comparator closures of every search/sort over tree entries in gix_object::tree decide through the entry ordering, never through a plain byte comparison of names.")
COMPARATORS = [(r"^<gix_object::tree::EntryRef<'_> as core::cmp::Ord>::cmp$", 2), (r"^<gix_object::tree::Entry as core::cmp::Ord>::cmp$", 2), (r"^gix_object::tree::editor::cmp_entry_with_name$", 1)]
SHAPE = {"len": 2, "min": 1, "index": 2, "cmp": 2, "then_with": 1, "get": 2, "or_else": 2, "then_some": 2}


def shape(db, f):
    gs = [g for g in [f] + db.closures_of(f) if g.kind != "promoted"]
    sig, consts = Counter(), set()
    for g in gs:
        for c in g.calls():
            sig[re.sub(r"<[^<>]*>", "", re.sub(r"<[^<>]*>", "", c.name)).split("::")[-1]] += 1
        bodies = [g] + db.find("^" + re.escape(g.name) + r"::\{promoted#\d+\}$")
        for b in bodies:
            for bi, si, pl, rv, ln, mc in b.assigns():
                for op in rvalue_operands(rv):
                    if "refv" in op:
                        consts.add(op["refv"])
                    elif "v" in op and op.get("ty") == "u8":
                        consts.add(op["v"])
    return sig, consts


def run(db, chk):
    editor_insertion_rule(db, chk)
    one_comparator_rule(db, chk)
    sigs = {}
    for pat, ntree in COMPARATORS:
        f = db.one(pat)
        sig, consts = shape(db, f)
        sigs[f.name] = sig
        chk.ob("directory-rule", "%s uses only b'/'" % f.name, consts == {47}, "byte constants %s" % sorted(consts), "%s:%d" % (f.file, f.line), key="directory-rule|const|%s" % f.name)
        chk.ob("directory-rule", "%s consults is_tree" % f.name, sig.get("is_tree", 0) == ntree, "is_tree calls: %d, expected %d" % (sig.get("is_tree", 0), ntree), "%s:%d" % (f.file, f.line), key="directory-rule|is_tree|%s" % f.name)
        core = {k: sig.get(k, 0) for k in SHAPE}
        chk.ob("comparator-shape", f.name, core == SHAPE, "callees %s, expected %s" % (core, SHAPE), "%s:%d" % (f.file, f.line), key="comparator-shape|%s" % f.name)
        chk.sample({"comparator": f.name, "callees": dict(sig), "constants": sorted(consts)})
    # the tie-break must apply '/' only under the is_tree predicate: then_some receives the result of is_tree (or the editor's bool param)
    for pat, ntree in COMPARATORS:
        f = db.one(pat)
        n_ok = 0
        for g in db.closures_of(f):
            if g.kind == "promoted":
                continue
            gfl = Flow(g)
            for c in g.calls_to(r"bool>::then_some$|::then_some$"):
                src = gfl.roots(c.args[0], stop_named=False)
                if any(r[0] == "call" and r[1].endswith("::is_tree") for r in src) or any(r[0] == "arg" for r in src):
                    n_ok += 1
        chk.ob("directory-rule", "%s: '/' only under is_tree" % f.name, n_ok == 2, "%d of 2 then_some calls are fed by is_tree / the is_tree argument" % n_ok, "%s:%d" % (f.file, f.line), key="directory-rule|guard|%s" % f.name)
    # bisect
    b = db.one(r"^gix_object::tree::ref_iter::<impl gix_object::TreeRef<'a>>::bisect_entry$")
    clo = [g for g in db.closures_of(b) if g.kind == "closure"]
    uses = any(c.is_(r"^<gix_object::tree::EntryRef<'_> as core::cmp::Ord>::cmp$") for g in clo for c in g.calls())
    chk.ob("lookup-uses-sort-comparator", "bisect_entry", uses and bool(b.calls_to(r"::binary_search_by$")), "search closure must call <EntryRef as Ord>::cmp", "%s:%d" % (b.file, b.line), key="lookup-uses-sort-comparator")
    # probe mode from is_dir
    t = None
    for bi in sorted(b.reachable_blocks()):
        tt = b.term(bi)
        if tt[0] == "switch" and "p" in tt[1] and Flow(b).roots(tt[1], stop_named=False) == {("arg", 3, ())}:
            t = (bi, tt)
    ok = False
    if t:
        bi, tt = t
        zero = [x for v, x in tt[2] if v == 0]
        f_t = zero[0] if zero else tt[3]
        t_t = tt[3] if zero else tt[2][0][1]
        kinds = {}
        for tgt, nm in ((t_t, "true"), (f_t, "false")):
            for b2, s2, pl, rv, ln, mc in b.assigns():
                if b2 == tgt and rv[0] == "agg" and rv[2].endswith("EntryKind"):
                    kinds[nm] = rv[3]
        ok = kinds == {"true": "Tree", "false": "Blob"}
    chk.ob("lookup-probe-mode", "bisect_entry", ok, "probe mode must be Tree when is_dir else Blob", "%s:%d" % (b.file, b.line), key="lookup-probe-mode")


def _capture_roots(db, top, fn, op, depth=0):
    """roots of operand `op` of closure/function `fn`, with closure captures resolved through the enclosing functions up to `top`"""
    fl = Flow(fn)
    out = set()
    for r in fl.roots(op, stop_named=False):
        if r[0] == "arg" and r[1] == 1 and fn.name != top.name and fn.kind == "closure" and r[2] and r[2][0].startswith(".") and r[2][0][1:].isdigit() and depth < 6:
            k = int(r[2][0][1:])
            parent_name = fn.name.rsplit("::{closure#", 1)[0]
            parent = next((g for g in [top] + db.closures_of(top) if g.name == parent_name), None)
            if parent is None:
                out.add(r)
                continue
            for bi, si, pl, rv, ln, mc in parent.assigns():
                if rv[0] == "agg" and rv[1] == "closure" and fn.name.endswith(rv[2].split("::")[-1]) and (rv[2] == fn.name or fn.name.endswith("::" + rv[2]) or fn.name.endswith(rv[2])) and k < len(rv[4]):
                    out |= _capture_roots(db, top, parent, rv[4][k], depth + 1)
        else:
            out.add(r)
    return out


def editor_insertion_rule(db, chk):
    """the editor keeps trees sorted by inserting at an index found by binary search; which of the two candidate indices (as file / as directory)
    is used must depend on the kind of the entry being inserted (argument kind_and_id), because the comparator orders `name` and `name/` differently."""
    top = db.one(r"^gix_object::tree::editor::<impl gix_object::tree::Editor<'_>>::upsert_or_remove_at_pathbuf$")
    fam = [g for g in db.closures_of(top) if g.kind == "closure"]
    # the closures that take part in computing the search result: those containing / nested in a closure that calls binary_search_by
    searchers = [g for g in fam if g.calls_to(r"::binary_search_by$")]
    chk.floor("editor: closures performing the fallback binary search", len(searchers), 1)
    sub = [g for g in fam if any(g.name == s_.name or g.name.startswith(s_.name + "::{closure#") for s_ in searchers)]
    n_sw = 0
    dep = False
    for g in sub:
        for bi in g.reachable_blocks():
            t = g.term(bi)
            if t[0] != "switch" or "p" not in t[1]:
                continue
            n_sw += 1
            rs = _capture_roots(db, top, g, t[1])
            if any(r[0] == "arg" and r[1] == 3 for r in rs):
                dep = True
    chk.floor("editor: decisions inside the insertion-index computation", n_sw, 1)
    chk.ob("insertion-index-depends-on-kind", "Editor::upsert_or_remove_at_pathbuf", dep,
           "no decision in the insertion-index computation depends on the kind of the new entry (kind_and_id); a new directory would be inserted where a file of that name sorts",
           "%s:%d" % (top.file, top.line), key="insertion-index-kind|editor")
    # the editor re-sorts after type changes and the sort uses the canonical comparator
    sorts = [c for c in top.calls() if c.is_(r"::sort$|::sort_by$|::sort_unstable$")]
    chk.floor("editor: re-sort after a type change", len(sorts), 1)


def one_comparator_rule(db, chk):
    """tree entries are ordered as if directories had a trailing slash, so two names cannot be compared as plain byte strings - not even two
    directories (`gix-object/` < `gix/` but `gix` < `gix-object`).  Every comparator closure handed to a binary search or a sort over tree
    entries in gix_object::tree therefore decides through the entry ordering itself (<Entry/EntryRef as Ord>::cmp or the editor's
    cmp_entry_with_name); a plain `BStr`/`[u8]` comparison of file names inside such a closure is a shortcut that is wrong for some pair."""
    SEARCH = r"::binary_search_by$|::sort_by$|::sort_unstable_by$|::binary_search_by_key$|::partition_point$|::is_sorted_by$"
    PLAIN = r"impl core::cmp::Ord for bstr::bstr::BStr>::cmp$|impl core::cmp::Ord for bstr::bstring::BString>::cmp$|core::slice::cmp::<impl core::cmp::Ord for \[T\]>::cmp$|<\[u8\] as core::cmp::Ord>::cmp$|::partial_cmp$"
    fns = [f for f in db.by_crate["gix_object"] if f.kind != "promoted" and "::tree::" in f.name and "core::cmp::" not in f.name]
    n = 0
    for f in fns:
        if f.kind == "closure":
            continue
        fl = Flow(f)
        for c in f.calls():
            if not c.is_(SEARCH) or len(c.args) < 2:
                continue
            recv = fl.roots(c.args[0], stop_named=False)
            if not any((r[0] in ("arg", "var")) and any(".entries" == x for x in (r[2] if r[0] == "arg" else r[3])) for r in recv):
                continue
            names = set()
            for a in c.args[1:]:
                if "p" in a and isinstance(a["p"][0], int):
                    seen, work = set(), [a["p"][0]]
                    while work:
                        l = work.pop()
                        if l in seen:
                            continue
                        seen.add(l)
                        for b2, s2, pl2, rv2, ln2, mc2 in f.assigns():
                            if pl2 == [l]:
                                if rv2[0] == "agg" and rv2[1] == "closure":
                                    names.add(rv2[2])
                                elif rv2[0] == "use" and "p" in rv2[1] and isinstance(rv2[1]["p"][0], int):
                                    work.append(rv2[1]["p"][0])
            clos = [g for g in db.closures_of(f) if g.name in names]
            for g in clos:
                n += 1
                plain = [x for x in g.calls() if x.is_(PLAIN)]
                chk.ob("tree-entries-compared-by-entry-order", "%s %s@%d" % (f.name.split("::")[-1], c.name.split("::")[-1], c.line), not plain,
                       "the comparator compares file names as plain bytes (%s) on some path: directories order by `name/`, so e.g. `gix-object` is not found next to `gix`" % [x.name.split("::")[-1] for x in plain][:2],
                       c.where(), key="tree-comparator|%s" % f.name.split("::")[-1])
    chk.floor("searches/sorts over tree entries with a comparator closure", n, 2)
