"""C06 Untrusted bytes never crash a parser — URC + UNW + LP over the parser scope, reviewed census of explicit panics."""
import collections, json, os, re, sys
from gx import urc, unw, loops, lp
from gx.flow import Flow
from props import _c06_scope

TECHNIQUE = ("untrusted-integer range checker (interprocedural taint with dominating-bound guards; sinks: slice index/split, allocation size), "
             "unwrap/non-empty rules (index-after-shrink, next().unwrap(), slice->array provenance, narrowing of input lengths, len()-x), loop-progress and "
             "recursion census, and a reviewed census of every explicit unwrap/expect/assert!/panic!/unreachable! in the parser scope")
EXPLANATION = ("Over every function of the parser crates/modules (about 2400 MIR bodies; list in props/_c06_scope.py) the check decides: (1) no integer decoded from "
               "input (from_be_bytes, btoi, var-ints, ...; through returns, tuple fields, containers and closure captures) reaches a slice index/split or an allocation size "
               "without a dominating ordering comparison or checked access (for the pkt-line reader the guard's constant is additionally checked against the buffer size); (2) indexing [0]/[len-1] after the same function shrank the collection needs an emptiness test in "
               "between; next().unwrap() needs a dominating peek() or the split-family first-item guarantee; unwrapped slice->array conversions need constant-length "
               "provenance (split_at(N), [..N], chunks_exact(N)); unwrapped usize->u32 narrowing of input lengths and `len() - x` need a dominating comparison; (3) every loop "
               "that is not a `for` makes progress on every path, self-recursion is depth-bounded or consumes input (listed); (4) every other explicit unwrap/expect and every "
               "assert!/panic!/unreachable! is on the reviewed list (rules/c06_*.json, one reason per site, keyed by function, produced by reading each site; sites judged "
               "reachable by input are findings); (5) BND: every slice access (`x[a..b]`, `x[i]`, split_at) and checked subtraction in the scope - also those whose operands are "
               "not decode-tainted - is either discharged by the LIN bounds prover (obligation E >= 0 as a linear form over symbolic lengths; facts from dominating comparisons, "
               "searches on the same slice, is_empty/first/starts_with outcomes, earlier accesses) or on the reviewed list rules/c06_bounds.json (keyed by function and kind, counts "
               "compared; a review may name a validation elsewhere that must still be present); scalar indexing of Vec/SmallVec/BStr (Index::index calls) is part of it; "
               "(6) every division/remainder (MIR `divide by zero` assertion) and every chunks/windows/step_by size in the scope has a non-zero constant operand, one that derives only "
               "from non-zero constants and hash lengths, or a reviewed reason. (7) every allocation in the scope whose size derives from a decoded integer is clamped (min/clamp) or reviewed, self-recursion driven by input nesting carries a checked depth, and ansi_c::undo never reports more consumed bytes than it saw. It does not prove the absence of all panics: additions/multiplications that overflow "
               "and panics inside callees outside the scope are not decided.")
RULES = os.path.join(os.path.dirname(os.path.dirname(os.path.abspath(__file__))), "rules")
EXTRA_SOURCES = re.compile(r"^(gix_utils::btoi::(to_signed|to_unsigned)(_with_radix)?|gix_index::util::var_int)$")
# self-recursive functions whose recursion is bounded by consumption of input / a finite structure (reviewed)
RECURSION_OK = {
    "gix_index::extension::tree::verify::<impl gix_index::extension::Tree>::verify::verify_recursive": "walks the already decoded (finite) tree of the extension",
    "<gix_commitgraph::file::commit::Parents<'_> as core::iter::traits::iterator::Iterator>::next": "one re-dispatch after the state advanced to Extra",
    "gix_object::commit::ref_iter::<impl gix_object::CommitRefIter<'a>>::next_inner_": "re-dispatch after the state machine advanced to the next state (finite states)",
    "<gix_ref::store_impl::file::log::iter::Reverse<'_, F> as core::iter::traits::iterator::Iterator>::next": "re-dispatch after the read position moved backwards",
    "gix_index::extension::tree::write::<impl gix_index::extension::Tree>::write_to::tree_entry": "write side: walks the in-memory tree",
}
UNWRAP = unw.UNWRAP
PANIC = re.compile(r"core::panicking::(panic|panic_fmt|assert_failed|panic_explicit|unreachable_display|panic_display)")
# producers whose unwrap cannot fail by construction
INFALLIBLE = {"write_to", "write_all", "write", "write_fmt", "hex_encode", "spawn_scoped", "join"}


def load_table(name):
    d = json.load(open(os.path.join(RULES, name)))
    return {"%s|%s" % (r["function"], r["what"]): r for r in d["reviewed"]}


def producers(fl, call):
    return sorted({re.sub(r"<[^<>]*>", "", re.sub(r"<[^<>]*>", "", r[1])).split("::")[-1] for r in fl.roots(call.args[0], stop_named=False, stop_calls=r".") if r[0] == "call"})


def run(db, chk):
    fns = _c06_scope.functions(db)
    chk.set("functions_in_scope", len(fns))
    chk.floor("functions in the parser scope", len(fns), 2000)
    byname = {f.name: f for f in fns}
    # entry points must resolve (fail closed when a parser is renamed away)
    entries = [r"^gix_object::object::<impl gix_object::ObjectRef<'a>>::from_bytes$", r"^gix_object::decode::loose_header$", r"^gix_ref::store_impl::packed::decode::reference$",
               r"^gix_index::decode::<impl gix_index::State>::from_bytes$", r"^gix_index::extension::decode::all$", r"^gix_bitmap::ewah::decode$", r"^gix_config::parse::nom::from_bytes$",
               r"^gix_packetline::decode::streaming$", r"^gix_protocol::handshake::refs::shared::parse_v1$", r"^gix_protocol::handshake::refs::shared::parse_v2$",
               r"^gix_refspec::parse::function::parse$", r"^gix_revision::spec::parse::function::parse$", r"^gix_pathspec::parse::<impl gix_pathspec::Pattern>::from_bytes$",
               r"^gix_date::parse::function::parse$", r"^gix_quote::ansi_c::undo$", r"^gix_commitgraph::file::init::<impl gix_commitgraph::File>::new$",
               r"^gix_validate::tag::name_inner$", r"^gix_validate::reference::validate$", r"^gix_url::parse::", r"^gix_attributes::parse::", r"^gix_ignore::parse::", r"^gix_mailmap::parse::",
               r"gix_credentials::protocol::Context>::from_bytes$", r"for gix_pack::multi_index::File>::try_from$"]
    found = sum(1 for e in entries if any(re.search(e, n) for n in byname))
    chk.floor("parser entry points resolved", found, len(entries))

    # (1) URC
    u = urc.URC(db, fns, extra_sources=EXTRA_SOURCES, alloc_sinks=True)
    fs = u.run(max_rounds=30)
    chk.set("urc", dict(u.stats))
    chk.floor("URC sinks examined", u.stats["sinks_seen"], 400)
    for f in fs:
        chk.ob("decoded-integer-bounded-before-use", "%s %s" % (f["fn"], f["sink"]), False, "value from %s reaches %s with no dominating bound" % (f["source"], f["sink"]),
               "%s:%d" % (f["file"], f["line"]), key=f["key"])
    chk.ob("decoded-integer-bounded-before-use", "all other sinks (%d)" % (u.stats["sinks_seen"] - len(fs)), True)
    # a guard with the wrong constant is still a guard to URC: for the pkt-line reader the constant is checked against the buffer size (rule shared with C29)
    from props import C29
    for crate in ("gix_packetline", "gix_packetline_blocking"):
        C29.payload_bound_rule(db, chk, crate)

    # (2) UNW rules
    unwraps = load_table("c06_unwraps.json")
    panics = load_table("c06_panics.json")
    n_next = n_arr = 0
    arr_ok = set()
    for f in fns:
        if f.file.startswith("gix-config/") and "/parse/" not in f.file and "/value/" not in f.file:
            continue
        for x in unw.index_after_shrink(f):
            chk.ob("index-after-shrink", f.name, False, x["what"], "%s:%d" % (f.file, x["line"]), key="shrink|%s" % f.name)
        for x in unw.next_unwraps(f):
            n_next += 1
            if not x["discharged"]:
                r = unwraps.get("%s|next" % f.name)
                ok = r is not None and r["class"] in ("safe", "out-of-scope")
                chk.ob("next-unwrap-discharged", "%s@%d" % (f.name, x["line"]), ok, "iterator item unwrapped without peek()/first-item guarantee and not on the reviewed list",
                       "%s:%d" % (f.file, x["line"]), key="next-unwrap|%s" % f.name)
        for c, u_, n, prov in unw.array_conversions(f, db):
            n_arr += 1
            ok = prov == n
            why = ""
            if isinstance(prov, tuple):
                # parameter: every caller in scope must pass a slice of that constant length
                callers = [(g, cc) for g in fns for cc in g.calls() if f.name in cc.names]
                bad = []
                for g, cc in callers:
                    gfl = Flow(g)
                    a = cc.args[prov[1] - 1]
                    pl = unw.const_len_of(g, gfl, a)
                    exact_iter = any(re.search(r"ChunksExact<", t) for t in g.locals) and not any(x.name.endswith("::chunks") for x in g.calls()) and \
                        all(unw.const_int(g, gfl, x.args[1]) == n for x in g.calls() if x.name.endswith("::chunks_exact") and len(x.args) > 1)
                    if pl != n and not (pl is None and exact_iter and gfl.derives_from_call(a, r"::next$")):
                        bad.append("%s:%d" % (g.name.split("::")[-1], cc.line))
                r = unwraps.get("%s|try_into" % f.name)
                ok = (bool(callers) and not bad) or (r is not None and r["class"] in ("safe", "out-of-scope"))
                why = "callers passing a slice of unknown length: %s" % bad
            elif not ok:
                r = unwraps.get("%s|try_into" % f.name)
                ok = r is not None and r["class"] in ("safe", "out-of-scope")
                why = "slice of non-constant length (%s) converted to [_; %d] and unwrapped" % (prov, n)
            if ok:
                arr_ok.add((f.name, c.line))
            chk.ob("array-conversion-constant-length", "%s@%d" % (f.name, c.line), ok, why, "%s:%d" % (f.file, c.line), key="array-conv|%s" % f.name)
        for x in unw.len_minus_unguarded(f):
            r = LEN_MINUS_OK.get(f.name)
            chk.ob("len-minus-guarded", "%s@%d" % (f.name, x["line"]), r is not None, r or x["what"], "%s:%d" % (f.file, x["line"]), key="len-minus|%s" % f.name)
    chk.set("next_unwraps", n_next)
    chk.set("array_conversions", n_arr)
    chk.floor("next().unwrap() sites examined", n_next, 5)
    chk.floor("unwrapped array conversions examined", n_arr, 8)

    # narrowing of input lengths
    for f in fns:
        fl = None
        for u_ in f.calls():
            if not UNWRAP.search(u_.name) or u_.macros or not u_.args:
                continue
            fl = fl or Flow(f)
            r1 = [r for r in fl.roots(u_.args[0], stop_named=False, stop_calls=r".", sites=True) if r[0] == "call" and unw.TRYINTO.search(r[1])]
            if not r1:
                continue
            c = [x for x in f.calls() if x.block == r1[0][2]][0]
            m = re.match(r"^(usize|u64), (u32|u16|u8)$", c.callee.get("targs", ""))
            if not m:
                continue
            from_len = any(r[0] == "call" and r[1].endswith("::len") for r in fl.roots(c.args[0], stop_named=False))
            if from_len:
                chk.ob("input-length-narrowing-not-unwrapped", "%s@%d" % (f.name, c.line), False, "%s -> %s of a value derived from an input length is unwrapped" % (m.group(1), m.group(2)),
                       "%s:%d" % (f.file, c.line), key="narrowing|%s" % f.name)

    # (3) loops and recursion
    kinds = {}
    nloops = 0
    for f in fns:
        for l, r in loops.check_fn(f):
            nloops += 1
            kinds[r["kind"]] = kinds.get(r["kind"], 0) + 1
            if not r["ok"]:
                chk.ob("loop-progress", "%s loop@%s" % (f.name, r.get("line")), False, r.get("reason", ""), "%s:%s" % (f.file, r.get("line")), key="loop-progress|%s|%s" % (f.name, ",".join(map(str, r.get("state", [])))))
    chk.set("loops", kinds)
    chk.floor("loops analysed", nloops, 150)
    chk.ob("loop-progress", "%d loops" % nloops, True)
    cg = db.callgraph()
    for f in fns:
        if f.key in cg.get(f.key, ()) and any(f.name in c.names for c in f.calls()):
            r = lp.bounded_recursion(db, f)
            if r["ok"] and r.get("rec_calls", 0) > 0:
                chk.ob("recursion-bounded", f.name, True, r["reason"])
            elif r.get("rec_calls", 0) > 0:
                chk.ob("recursion-bounded", f.name, f.name in RECURSION_OK, RECURSION_OK.get(f.name, r.get("reason", "")), "%s:%d" % (f.file, f.line), key="recursion|%s" % f.name)

    # (4) census of explicit unwrap/expect and panicking macros
    n_unw = n_pan = 0
    for f in fns:
        if f.file.startswith("gix-config/") and "/parse/" not in f.file:
            continue
        fl = None
        for c in f.calls():
            if UNWRAP.search(c.name) and not c.macros and c.args:
                fl = fl or Flow(f)
                ps = producers(fl, c)
                if set(ps) & INFALLIBLE:
                    continue
                if ps in (["try_into"], ["try_from"]) and any(n_ == f.name and abs(l_ - c.line) <= 1 for n_, l_ in arr_ok):
                    continue   # slice->array conversion with constant-length provenance: decided by the rule above
                n_unw += 1
                key = "%s|%s" % (f.name, ",".join(ps))
                r = unwraps.get(key)
                if r is None:
                    chk.ob("unwrap-reviewed", "%s unwrap of %s@%d" % (f.name, ",".join(ps) or "?", c.line), False, "explicit unwrap/expect in parser code that is not on the reviewed list", c.where(), key="unwrap|%s" % key)
                elif r["class"] == "panics":
                    chk.ob("unwrap-reviewed", "%s unwrap of %s" % (f.name, ",".join(ps)), False, "reviewed: reachable by input — " + r["reason"][:200], c.where(), key="unwrap|%s" % key)
            elif PANIC.search(c.name):
                ms = [m for m in c.macros if not m.startswith(("$crate", "d:", "ast:"))]
                kind = ms[-1] if ms else "?"
                if kind.startswith("debug_assert") or kind == "?":
                    continue
                n_pan += 1
                key = "%s|%s" % (f.name, kind)
                r = panics.get(key)
                if r is not None and r.get("requires"):
                    # the review rests on a structural precondition elsewhere: it must still be there
                    for frx, crx in r["requires"]:
                        holders = [g for n_, g in byname.items() if re.search(frx, n_)]
                        if not holders or not any(g.calls_to(crx) for g in holders):
                            r = dict(r, **{"class": "panics", "reason": "the precondition the review relied on is gone: %s must call %s; %s" % (frx, crx, r["reason"])})
                if r is None:
                    chk.ob("panic-site-reviewed", "%s %s!@%d" % (f.name, kind, c.line), False, "explicit %s! in parser code that is not on the reviewed list" % kind, c.where(), key="panic|%s" % key)
                elif r["class"] == "panics":
                    chk.ob("panic-site-reviewed", "%s %s!" % (f.name, kind), False, "reviewed: reachable by input — " + r["reason"][:200], c.where(), key="panic|%s" % key)
    chk.set("explicit_unwraps_reviewed", n_unw)
    chk.set("explicit_panic_sites_reviewed", n_pan)
    chk.floor("explicit unwrap sites examined", n_unw, 60)
    chk.floor("explicit panic sites examined", n_pan, 40)
    chk.ob("unwrap-reviewed", "%d sites on the reviewed list" % n_unw, True)
    chk.ob("panic-site-reviewed", "%d sites on the reviewed list" % n_pan, True)
    chk.assumptions.append("reviewed lists (rules/c06_unwraps.json, rules/c06_panics.json) were produced by reading each site; classes: safe / out-of-scope (not parsing) / panics (reported)")

    # (5) BND: slice accesses and checked subtractions whose operands are NOT decode-tainted (URC does not see them): every `x[a..b]`, `x[i]`,
    # split_at(mid) and `a - b` in the scope is either discharged by the LIN prover (gx/bnd.py) or on the reviewed list rules/c06_bounds.json
    bounds_path = os.path.join(RULES, "c06_bounds.json")
    if os.path.exists(bounds_path):
        from gx import bnd
        reviewed = collections.defaultdict(list)
        for r in json.load(open(bounds_path))["reviewed"]:
            reviewed[(r["function"], r["kind"])].append(r)
        n_sites = n_proved = n_rev = 0
        for f in fns:
            pr = bnd.Prover(f)
            obs = list(bnd.obligations(f, pr.ev))
            pr.all_obligations = obs
            left = collections.defaultdict(list)
            for o in obs:
                n_sites += 1
                if o["forms"] is not None and all(pr.prove(e, o["block"]) for e in o["forms"]):
                    n_proved += 1
                else:
                    left[o["kind"]].append(o)
            for kind, sites in left.items():
                revs = reviewed.get((f.name, kind), [])
                for i_, r in enumerate(revs):
                    if r.get("requires"):
                        # the review rests on a structural precondition elsewhere (e.g. validation when the file is opened): it must still be there
                        for frx, crx in r["requires"]:
                            holders = [g for n_, g in byname.items() if re.search(frx, n_)]
                            if not holders or not any(g.calls_to(crx) for g in holders):
                                revs[i_] = dict(r, **{"class": "panics", "reason": "the precondition the review relied on is gone: %s must call %s; %s" % (frx, crx, r["reason"])})
                bad = [r for r in revs if r["class"] == "panics"]
                for r in bad:
                    chk.ob("slice-access-bounded", "%s %s" % (f.name, kind), False, "reviewed: reachable by input — " + r["reason"][:220],
                           "%s:%d" % (f.file, r.get("line", f.line)), key="bounds|%s|%s|%s" % (f.name, kind, r.get("tag", "1")))
                ok_n = len([r for r in revs if r["class"] != "panics"])
                n_rev += min(ok_n, len(sites))
                if len(sites) > len(revs):
                    s0 = sorted(sites, key=lambda o: o["line"])[-1]
                    chk.ob("slice-access-bounded", "%s %s (%d site(s), %d reviewed)" % (f.name, kind, len(sites), len(revs)), False,
                           "a slice access / subtraction in parser code is neither discharged by the bounds prover nor on the reviewed list: %s" % s0["what"][:160],
                           "%s:%d" % (f.file, s0["line"]), key="bounds-unreviewed|%s|%s" % (f.name, kind))
        chk.set("bnd", {"sites": n_sites, "proved": n_proved, "reviewed": n_rev})
        chk.floor("BND slice-access / subtraction sites examined", n_sites, 350)
        chk.ob("slice-access-bounded", "%d sites discharged by the prover, %d on the reviewed list" % (n_proved, n_rev), True)
    zero_operand_rule(fns, chk)
    allocation_size_rule(fns, chk)
    # a reviewed slice `&line[consumed..]` (gix-attributes) relies on gix_quote::ansi_c::undo never reporting more than it was given
    from props.C57 import consumed_rule
    consumed_rule(db, chk)


NONZERO_CALLS = r"Kind>::len_in_bytes$|Kind>::len_in_hex$"
ZERO_REVIEWED = {
    ("gix_index::decode::<impl gix_index::State>::from_bytes::{closure#0}", "chunks"): "chunk_size = ceil(entry_offsets.len() / num_threads): the IEOT decoder returns None for zero offsets (len >= 1) and the threaded path needs num_threads > 1 before the decrement (>= 1)",
    ("gix_index::decode::<impl gix_index::State>::from_bytes::{closure#0}::{closure#1}", "divzero"): "num_chunks = entry_offsets.chunks(chunk_size).len() of a non-empty slice, hence >= 1",
    ("gix_index::decode::<impl gix_index::State>::from_bytes::{closure#0}::{closure#1}::{closure#1}", "divzero"): "same num_chunks (captured), >= 1",
    ("gix_commitgraph::file::access::<impl gix_commitgraph::File>::iter_base_graph_ids", "chunks_exact"): "self.hash_len is object_hash.len_in_bytes() stored by File::new (20)",
}


def zero_operand_rule(fns, chk):
    """panics of the `zero operand` kind in the parser scope: every MIR division/remainder assertion (`attempt to divide by zero`) and every
    chunks/chunks_exact/windows/step_by size has an operand that is a non-zero constant, derives only from non-zero constants and hash lengths, or
    is on the reviewed table above (one reason per site)."""
    n = 0
    for f in fns:
        fl = None
        sites = []
        for bi in f.reachable_blocks():
            t = f.term(bi)
            if t[0] == "assert" and len(t) > 3 and t[3] in ("divzero", "remzero") and "p" in t[1]:
                ds = [rv for b2, si, pl, rv, ln, mc in f.assigns() if b2 == bi and pl == [t[1]["p"][0]]]
                if ds and ds[-1][0] == "bin" and ds[-1][1] == "Eq":
                    sites.append(("divzero", ds[-1][2], t[-1] if isinstance(t[-1], int) else f.line))
        for c in f.calls():
            if c.is_(r"::(chunks|chunks_exact|chunks_mut|chunks_exact_mut|rchunks|windows|step_by)$") and len(c.args) >= 2:
                sites.append((c.name.split("::")[-1], c.args[1], c.line))
        for kind, op, ln in sites:
            n += 1
            if "p" not in op:
                ok = isinstance(op.get("v"), int) and op["v"] != 0
                why = "constant %s" % op.get("v")
            else:
                fl = fl or Flow(f)
                r = fl.roots(op, stop_named=False, stop_calls=NONZERO_CALLS)
                consts = [x[1] for x in r if x[0] == "const"]
                other = [x for x in r if x[0] not in ("const", "constdef") and not (x[0] == "call" and re.search(NONZERO_CALLS, x[1])) ]
                ok = not other and all(isinstance(v, int) and v != 0 for v in consts) and bool(r)
                why = "derives from %s" % sorted({str(x[:2]) for x in r})[:3]
                if not ok and (f.name, kind if kind != "remzero" else "divzero") in ZERO_REVIEWED:
                    ok, why = True, ZERO_REVIEWED[(f.name, kind if kind != "remzero" else "divzero")]
            chk.ob("zero-operand", "%s %s@%s" % (f.name.split("::")[-1], kind, ln), ok,
                   "a divisor / chunk size in parser code may be zero (%s)" % why, "%s:%s" % (f.file, ln), key="zero-operand|%s|%s" % (f.name, kind))
    chk.floor("division / chunk-size sites in the parser scope", n, 30)


LEN_MINUS_OK = {
    "gix_packetline::line::<impl core::convert::From<&'a [u8]> for gix_packetline::TextRef<'a>>::from": "data lines are never empty (a 0004 prefix is rejected as DataIsEmpty)",
    "gix_packetline_blocking::line::<impl core::convert::From<&'a [u8]> for gix_packetline_blocking::TextRef<'a>>::from": "data lines are never empty (a 0004 prefix is rejected as DataIsEmpty)",
    "gix_refspec::match_group::util::Needle::<'a>::to_bstr_replace": "a glob name contains '*' so its length is at least 1",
    "gix_commitgraph::file::verify::<impl gix_commitgraph::File>::checksum": "File::new rejects files shorter than MIN_FILE_SIZE",
    "gix_commitgraph::file::verify::<impl gix_commitgraph::File>::verify_checksum": "File::new rejects files shorter than MIN_FILE_SIZE",
    "gix_ref::fullname::<impl gix_ref::FullName>::strip_namespace": "guarded by starts_with_str(namespace)",
    "gix_index::decode::<impl gix_index::State>::from_bytes::{closure#0}::{closure#4}": "only on the threaded path, which requires an EOIE extension whose decoder checked data.len() >= MIN_SIZE_WITH_HEADER + hash_len",
    "gix_pack::multi_index::access::<impl gix_pack::multi_index::File>::checksum": "try_from rejects files shorter than header + trailer",
}


ALLOC = re.compile(r"(::with_capacity$|::with_capacity_in$|::reserve$|::reserve_exact$|Vec::<T, A>::resize$|::from_elem$|::resize_with$)")
DECODED = r"::var_int$|::read_u32$|::read_u64$|::read_u16$|::from_be_bytes$|::from_le_bytes$|leb64|btoi::to_(un)?signed|::from_str_radix$|decode::u32$"
ALLOC_REVIEWED = {
    ("gix_bitmap::ewah::decode", "with_capacity"): "`len` words were just split off the input (split_at_pos(data, len * 8) succeeded), so len <= data.len() / 8",
    ("gix_index::decode::entries::load_one", "resize"): "copy_len = prev_path.end - strip_len - prev_path.start (checked_sub), a range inside the already decoded path backing",
}


def allocation_size_rule(fns, chk):
    """a count read from the file must not size an allocation as it is: `Vec::with_capacity(n)` with n = 2^56 aborts the process (`memory
    allocation of .. bytes failed`), which C06 forbids as much as a panic.  URC treats try_into()/try_from() as sanitisers (right for indexing,
    wrong for sizes), so this rule follows the plain data flow: every with_capacity/reserve/resize in the parser scope whose size derives from a
    decoding call is clamped by a `min`/`clamp` (or by max_possible_entries) on the way, or has a reviewed reason."""
    n = 0
    for f in fns:
        fl = None
        for c in f.calls():
            if not ALLOC.search(c.name) or not c.args:
                continue
            a = c.args[0] if re.search(r"::with_capacity(_in)?$", c.name) else (c.args[1] if len(c.args) > 1 else None)
            if a is None or "p" not in a:
                continue
            fl = fl or Flow(f)
            r = fl.roots(a, stop_named=False)
            src = sorted({x[1].split("::")[-1] for x in r if x[0] == "call" and re.search(DECODED, x[1])})
            if not src:
                continue
            n += 1
            clamp = any(x[0] == "call" and re.search(r"::min$|::clamp$|max_possible_entries$", x[1]) for x in r)
            key = (f.name, c.name.split("::")[-1])
            ok = clamp or key in ALLOC_REVIEWED
            chk.ob("decoded-count-does-not-size-allocation", "%s %s@%d" % (f.name.split("::")[-1], c.name.split("::")[-1], c.line), ok,
                   "the allocation size derives from %s without a clamp to what the remaining input can hold: a crafted count aborts the process" % src if not ok else (
                       "clamped" if clamp else ALLOC_REVIEWED[key]),
                   c.where(), key="alloc-size|%s|%s" % (f.name, c.name.split("::")[-1]))
    chk.floor("allocations sized by decoded integers in the parser scope", n, 4)
