"""C07 Pack entry headers — kind<->id tables (TAB), sibling decoder arithmetic signatures, size-by-construction."""
import re
from collections import Counter
from gx import tab
from gx.flow import Flow

TECHNIQUE = "enum<->type-id table extraction (mutually inverse, spec values), arithmetic-signature agreement of sibling decoders and of writer vs reader masks/shifts"
EXPLANATION = ("For gix-pack entry headers: the kind->type-id table of Header::as_type_id and the type-id->kind tables of Entry::from_bytes and "
               "Entry::from_read are extracted from MIR switches and must be mutually inverse over the six kinds with git's ids (1,2,3,4,6,7), unknown ids "
               "must reach an error; the in-memory and streaming header parsers, and leb64/leb64_from_read, must have the same multiset of "
               "(arithmetic/bit operator, constant) pairs, containing the pack format's masks and shifts, and the header writer must use the "
               "complementary constants; Header::size is write_to into io::sink (equal by construction). Round-trip over all widths and delta "
               "application are value properties and are not decided. A length limit present in one sibling only is tolerated iff its constant is >= 10 (bytes a u64 varint needs). delta::apply reads four offset and three size bytes per copy instruction (explicit shifts, or one 4-byte and one 3-byte instantiation of a helper).")
SPEC = {"Commit": 1, "Tree": 2, "Blob": 3, "Tag": 4, "OfsDelta": 6, "RefDelta": 7}
ARITH = ("Shl", "Shr", "BitAnd", "BitOr", "BitXor", "Add", "Sub", "Mul", "Ne", "Eq")


def sig(f):
    return Counter({k: v for k, v in tab.arith_signature(f, ARITH).items()})


def run(db, chk):
    delta_copy_layout_rule(db, chk)
    a = db.one(r"^gix_pack::data::entry::header::Header::as_type_id$")
    t = tab.enum_to_const(a)
    chk.floor("as_type_id table", len(t), 1)
    w = t[0]["table"] if t else {}
    for k, v in SPEC.items():
        chk.ob("type-id-spec", "as_type_id %s" % k, w.get(k) == v, "is %s, pack format says %d" % (w.get(k), v), "%s:%d" % (a.file, a.line), key="type-id-spec|%s" % k)
    for nm in ("from_bytes", "from_read"):
        f = db.one(r"^gix_pack::data::entry::decode::<impl gix_pack::data::Entry>::%s$" % nm)
        best = None
        for sw in tab.switches(f, 5):
            if set(SPEC.values()) <= set(sw["arms"]):
                best = sw
        if best is None:
            chk.anchor_lost("type-id switch in Entry::%s" % nm)
            continue
        ex = tab.exclusive_arm_blocks(f, best)
        r = {v: tab.variants_built(f, blocks, r"entry::header::Header$") for v, blocks in ex.items()}
        for k, v in w.items():
            chk.ob("table-inverse", "%s: id %s -> %s" % (nm, v, k), r.get(v) == {k}, "decoder builds %s" % r.get(v), "%s:%d" % (f.file, f.line), key="table-inverse|%s|%s" % (nm, k))
        chk.ob("table-no-extra", "%s accepted ids" % nm, set(best["arms"]) == set(w.values()), "accepts %s" % sorted(best["arms"]), "%s:%d" % (f.file, f.line), key="table-no-extra|%s" % nm)
        # unknown ids: the otherwise arm builds no Header and reaches an error construction
        owb = f.reach_from(best["otherwise"]) - set().union(*[f.reach_from(x) for x in best["arms"].values()])
        builds = tab.variants_built(f, owb, r"entry::header::Header$")
        errs = tab.variants_built(f, owb, r"(decode::Error$|result::Result$)") | {c.name for c in f.calls() if c.block in owb and c.is_(r"io::error::Error::new$")}
        chk.ob("unknown-id-is-error", "%s otherwise arm" % nm, not builds and bool(errs), "builds %s errors %s" % (builds, errs), "%s:%d" % (f.file, f.line), key="unknown-id-is-error|%s" % nm)
    # sibling signatures
    pairs = [("gix_pack::data::entry::decode::parse_header_info", "gix_pack::data::entry::decode::streaming_parse_header_info",
              {("Shr", 4, "r"), ("BitAnd", 7, ""), ("BitAnd", 15, ""), ("BitAnd", 127, ""), ("BitAnd", 128, ""), ("Add", 7, "")}),
             ("gix_features::decode::leb64", "gix_features::decode::leb64_from_read",
              {("Shl", 7, "r"), ("BitAnd", 127, ""), ("BitAnd", 128, ""), ("Add", 1, "")})]
    for x, y, spec in pairs:
        fx, fy = db.one("^%s$" % x), db.one("^%s$" % y)
        sx, sy = sig(fx), sig(fy)
        # a length limit present in one sibling only is not a disagreement as long as it cannot reject a header the writer can produce:
        # a 64-bit size / distance needs up to 10 varint bytes, so one-sided comparisons with constants >= 10 are tolerated
        def strict(d):
            return {k: v for k, v in dict(d).items() if not (k[0] in ("Eq", "Ne", "Lt", "Le", "Gt", "Ge") and isinstance(k[1], int) and k[1] >= 10)}
        a, b = strict(sx - sy), strict(sy - sx)
        chk.ob("sibling-signature", "%s == %s" % (x.split("::")[-1], y.split("::")[-1]), not a and not b,
               "only in first %s, only in second %s" % (a, b), "%s:%d" % (fy.file, fy.line), key="sibling-signature|%s" % x.split("::")[-1])
        for s in spec:
            chk.ob("format-constant", "%s uses %s" % (x.split("::")[-1], (s[0], s[1])), s in sx, "", "%s:%d" % (fx.file, fx.line), key="format-constant|%s|%s|%s" % (x.split("::")[-1], s[0], s[1]))
    # initial shift of the size accumulation is 4 in both parsers (the first byte carries 4 size bits)
    for x in ("parse_header_info", "streaming_parse_header_info"):
        f = db.one(r"^gix_pack::data::entry::decode::%s$" % x)
        ls = f.locals_named("s")
        init = set()
        for l in ls:
            for (bi, si, kind, payload) in f.defs().get(l, []):
                if kind == "a" and payload[1][0] == "use" and "p" not in payload[1][1]:
                    init.add(payload[1][1].get("v"))
        chk.ob("format-constant", "%s initial shift" % x, init == {4}, "initial shift %s" % init, "%s:%d" % (f.file, f.line), key="format-constant|%s|init-shift" % x)
    wt = db.one(r"^gix_pack::data::entry::header::Header::write_to$")
    ws = sig(wt)
    for s in {("Shl", 4, "r"), ("BitAnd", 15, ""), ("Shr", 4, "r"), ("BitOr", 128, ""), ("BitAnd", 127, ""), ("Shr", 7, "r")}:
        chk.ob("format-constant", "Header::write_to uses %s" % ((s[0], s[1]),), s in ws, "", "%s:%d" % (wt.file, wt.line), key="format-constant|write_to|%s|%s" % (s[0], s[1]))
    le = db.one(r"^gix_pack::data::entry::header::leb64_encode$")
    ls_ = sig(le)
    for s in {("BitAnd", 127, ""), ("BitOr", 128, ""), ("Shr", 7, "r"), ("Sub", 1, "r")}:
        chk.ob("format-constant", "leb64_encode uses %s" % ((s[0], s[1]),), s in ls_, "", "%s:%d" % (le.file, le.line), key="format-constant|leb64_encode|%s|%s" % (s[0], s[1]))
    sz = db.one(r"^gix_pack::data::entry::header::Header::size$")
    ok = bool(sz.calls_to(r"entry::header::Header::write_to$")) and bool(sz.calls_to(r"std::io::util::sink$|std::io::sink$"))
    chk.ob("size-is-write-to-sink", "Header::size", ok, "size() must be write_to(io::sink())", "%s:%d" % (sz.file, sz.line), key="size-is-write-to-sink")
    # write_to emits the type id through as_type_id (no second table)
    chk.ob("writer-uses-table", "Header::write_to", bool(wt.calls_to(r"Header::as_type_id$")), "", "%s:%d" % (wt.file, wt.line), key="writer-uses-table")


def delta_copy_layout_rule(db, chk):
    """a copy instruction of git's delta format carries up to FOUR little-endian offset bytes (flag bits 0-3) and up to THREE size bytes (bits
    4-6).  delta::apply either spells that out (shifts by 8, 16, 24 for the offset and by 8, 16 for the size) or delegates to a helper that
    is instantiated once for 4 and once for 3 bytes.  With only three offset bytes every copy from beyond 16 MiB of the base is mis-decoded -
    no fixture has an object that large."""
    from collections import Counter
    f = db.one(r"^gix_pack::data::delta::apply$")
    shl = Counter()
    for k, v in tab.arith_signature(f, ("Shl",)).items():
        shl[k[1]] += v
    direct = shl[8] >= 2 and shl[16] >= 2 and shl[24] >= 1 and shl[32] == 0
    helpers = [c for c in f.calls() if re.search(r"^gix_pack::data::delta::", c.name) and (c.callee.get("targs") or "").strip().isdigit()]
    widths = sorted(int(c.callee["targs"]) for c in helpers)
    generic = widths == [3, 4]
    chk.ob("delta-copy-has-4-offset-and-3-size-bytes", "delta::apply", direct or generic,
           "shifts found %s, helper instantiations %s: expected shifts 8/16/24 + 8/16, or one 4-byte and one 3-byte instantiation" % (dict(shl), widths),
           "%s:%d" % (f.file, f.line), key="delta-copy-layout|apply")
