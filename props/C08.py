"""C08 Pack entry caches — cache-key completeness and call-site key provenance (FLOW)."""
import re
from gx.flow import Flow, comparisons

TECHNIQUE = "key-completeness dataflow: both key parameters of every non-trivial cache impl must flow into the lookup key / comparison and into the stored entry's fields of the same name; call sites must pass the pack id and an entry's pack offset"
EXPLANATION = ("For every non-trivial impl of gix_pack::cache::DecodeEntry (the LRU linked list and the memory-capped hashmap; Never and Box forwarding are "
               "trivial by inspection of their one-block bodies): in get(), both pack_id and offset reach the key handed to the map or are both compared by "
               "equality with the stored entry's field of the same name; in put() they are stored under the key / into fields pack_id and offset respectively. "
               "In data::File::resolve_deltas every cache.get/put passes self.id and a `data_offset` of an entry. The object cache is keyed by the full object id. "
               "In resolve_deltas every relocation copy after the swapped-buffer delta loop is control-dependent on a `% 2` test of the chain length. "
               "set_vec_to_slice clears the output buffer on every path to a successful return. Eviction accounting and the remaining delta-chain buffer arithmetic are not decided.")


def params_in(fl, op):
    return {r[1] for r in fl.roots(op, stop_named=False) if r[0] == "arg"}


def run(db, chk):
    parity_rule(db, chk)
    cache_invalidation_rule(db, chk)
    copy_helper_rule(db, chk)
    impls = [f for f in db.by_crate["gix_pack"] if f.trait_item in ("gix_pack::cache::DecodeEntry::put", "gix_pack::cache::DecodeEntry::get") and f.kind != "promoted"]
    nontrivial = [f for f in impls if len(f.blocks) > 3]
    chk.floor("DecodeEntry impls", len(impls), 8)
    chk.floor("non-trivial DecodeEntry impls", len(nontrivial), 4)
    for f in impls:
        if f in nontrivial:
            continue
        # trivial ones: forwarding passes params 2 and 3 on in order, Never does nothing
        cs = [c for c in f.calls() if c.is_(r"cache::DecodeEntry::(put|get)$")]
        tfl = Flow(f)
        ok = all(len(c.args) >= 3 and params_in(tfl, c.args[1]) == {2} and params_in(tfl, c.args[2]) == {3} for c in cs)
        chk.ob("trivial-impl", f.name, ok, "forwarding impl must pass pack_id and offset through unchanged", "%s:%d" % (f.file, f.line), key="trivial|%s" % f.name)
    for f in nontrivial:
        fl = Flow(f)
        which = f.trait_item.split("::")[-1]
        used_key = set()
        detail = []
        # (1) tuple key (pack_id, offset) passed to a map call
        for bi, si, pl, rv, ln, mc in f.assigns():
            if rv[0] == "agg" and rv[1] == "tuple" and len(rv[4]) == 2:
                a, b = params_in(fl, rv[4][0]), params_in(fl, rv[4][1])
                if a == {2} and b == {3}:
                    used_key |= {2, 3}
                    detail.append("tuple key (pack_id, offset)")
            if rv[0] == "agg" and rv[1] == "adt" and rv[2].endswith("::Entry") and len(rv) > 5:
                for n, o in zip(rv[5], rv[4]):
                    if n == "pack_id":
                        ok = params_in(fl, o) == {2}
                        chk.ob("entry-field-from-same-named-param", "%s Entry.pack_id" % f.name, ok, "Entry.pack_id is filled from params %s" % params_in(fl, o), "%s:%d" % (f.file, ln), key="entry-field|%s|pack_id" % f.name)
                        if ok:
                            used_key.add(2)
                    if n == "offset":
                        ok = params_in(fl, o) == {3}
                        chk.ob("entry-field-from-same-named-param", "%s Entry.offset" % f.name, ok, "Entry.offset is filled from params %s" % params_in(fl, o), "%s:%d" % (f.file, ln), key="entry-field|%s|offset" % f.name)
                        if ok:
                            used_key.add(3)
        # (2) closure comparing both with the entry's fields
        for g in db.closures_of(f):
            if g.kind != "closure":
                continue
            gfl = Flow(g)
            upv = {}
            for bi, si, pl, rv, ln, mc in f.assigns():
                if rv[0] == "agg" and rv[1] == "closure" and rv[2] == g.name:
                    for i, o in enumerate(rv[4]):
                        ps = params_in(fl, o)
                        if len(ps) == 1:
                            upv[".%d" % i] = next(iter(ps))
            for c in comparisons(g):
                if c["op"] != "Eq":
                    continue
                ra, rb = gfl.roots(c["a"], stop_named=False), gfl.roots(c["b"], stop_named=False)
                sides = []
                for r in (ra, rb):
                    fld = {x[2][-1] for x in r if x[0] == "arg" and x[1] == 2 and x[2]}           # entry param of the closure
                    up = {upv.get(x[2][0]) for x in r if x[0] == "arg" and x[1] == 1 and x[2]}     # captured variable
                    sides.append((fld, up))
                flds = sides[0][0] | sides[1][0]
                ups = (sides[0][1] | sides[1][1]) - {None}
                if flds == {".pack_id"} and ups == {2}:
                    used_key.add(2); detail.append("e.pack_id == pack_id")
                if flds == {".offset"} and ups == {3}:
                    used_key.add(3); detail.append("e.offset == offset")
        chk.ob("key-complete", "%s" % f.name, used_key == {2, 3}, "key uses params %s (%s); both pack_id and offset must take part" % (sorted(used_key), ", ".join(detail)), "%s:%d" % (f.file, f.line), key="key-complete|%s" % f.name)
        chk.sample({"impl": f.name, "key": detail})
    # call sites
    rd = db.one(r"^gix_pack::data::file::decode::entry::<impl gix_pack::data::File>::resolve_deltas$")
    fl = Flow(rd)
    cs = [c for c in rd.calls() if c.is_(r"cache::DecodeEntry::(get|put)$")]
    chk.floor("cache.get/put in resolve_deltas", len(cs), 2)
    for c in cs:
        r1 = fl.roots(c.args[1], stop_named=False)
        r2 = fl.roots(c.args[2], stop_named=True)
        ok1 = any(x[0] == "arg" and x[1] == 1 and x[2] == (".id",) for x in r1)
        ok2 = any((x[0] == "var" and ".data_offset" in x[3]) or (x[0] == "arg" and ".data_offset" in x[2]) for x in r2)
        chk.ob("call-site-key", "resolve_deltas %s@%d" % (c.name.split("::")[-1], c.line), ok1 and ok2, "pack id from self.id: %s, offset from an entry's data_offset: %s" % (ok1, ok2), c.where(), key="call-site-key|%s" % c.name.split("::")[-1])
    # object cache keyed by id
    for f in db.by_crate["gix_pack"]:
        if f.trait_item in ("gix_pack::cache::Object::put", "gix_pack::cache::Object::get") and len(f.blocks) > 3 and f.kind != "promoted":
            fl2 = Flow(f)
            keyed = any(c.is_(r"(put_with_weight|::get)$") and len(c.args) > 1 and 2 in params_in(fl2, c.args[1]) for c in f.calls())
            chk.ob("object-cache-keyed-by-id", f.name, keyed, "map key must derive from the id parameter", "%s:%d" % (f.file, f.line), key="object-cache-key|%s" % f.name)


def parity_rule(db, chk):
    """resolve_deltas applies n deltas while swapping two buffers, so where the final result lies depends on the parity of n: every byte copy that
    relocates the result after the delta loop must be control-dependent on a test of `x % 2` (an unconditional or otherwise-conditioned move is wrong
    for one parity).  A version that needs no relocation has no such copy and passes."""
    from gx.flow import Flow, comparisons, bool_switch_edges
    f = db.one(r"^gix_pack::data::file::decode::entry::<impl gix_pack::data::File>::resolve_deltas$")
    fl = Flow(f)
    applies = f.calls_to(r"delta::apply$")
    chk.floor("resolve_deltas: delta::apply call inside the chain loop", len(applies), 1)
    if not applies:
        return
    loop = next((l for l in f.loops() if applies[0].block in l["body"]), None)
    if loop is None:
        chk.anchor_lost("resolve_deltas: loop around delta::apply")
        return
    after = set()
    for (b, s_) in loop["exits"]:
        after |= f.reach_from(s_)
    after -= loop["body"]
    copies = [c for c in f.calls() if c.block in after and c.is_(r"::(copy_from_slice|copy_within|clone_from_slice)$|ptr::copy(_nonoverlapping)?$")]
    rems = {pl[0] for bi, si, pl, rv, ln, mc in f.assigns() if rv[0] == "bin" and rv[1] == "Rem" and "p" not in rv[3] and rv[3].get("v") == 2}
    tests = []
    for cm in comparisons(f):
        for side in ("a", "b"):
            if "p" in cm[side] and (cm[side]["p"][0] in rems or any(r[0] == "var" and False for r in ())):
                e = bool_switch_edges(f, cm["block"], cm["res"])
                if e:
                    tests.append(e)
    # also `switch` directly on the remainder
    for bi in f.reachable_blocks():
        t = f.term(bi)
        if t[0] == "switch" and "p" in t[1] and t[1]["p"][0] in rems:
            te = {(bi, tgt) for v, tgt in t[2]}
            tests.append((te, {(bi, t[3])}))
    chk.set("relocation_copies_after_delta_loop", len(copies))
    for c in copies:
        dep = any(fl.cut_off([c.block], te, start=loop["header"]) or fl.cut_off([c.block], fe, start=loop["header"]) for te, fe in tests)
        chk.ob("result-location-depends-on-chain-parity", "resolve_deltas %s@after-loop" % c.name.split("::")[-1], dep,
               "the result of a chain of n swapped-buffer delta applications is moved without a test of n % 2 deciding it",
               c.where(), key="parity|resolve_deltas|%s" % c.name.split("::")[-1])
    if not copies:
        chk.ob("result-location-depends-on-chain-parity", "resolve_deltas (no relocation copy after the loop)", True)


def cache_invalidation_rule(db, chk):
    """pack ids used as cache keys are slot indices of the dynamic store, and slots are reused after packs were deleted: whenever a lookup replaces its
    snapshot after a refresh, the delta cache it was given must be invalidated (or keyed by something that survives slot reuse).  The rule looks for any
    operation on the `pack_cache` parameter other than the decode-time get/put on the path that follows a snapshot replacement."""
    from gx.flow import Flow
    fs = [f for f in db.by_crate["gix_odb"] if f.name.endswith("::try_find_cached_inner") and "dynamic::find" in f.name]
    chk.floor("dynamic::find::try_find_cached_inner", len(fs), 1)
    for f in fs:
        fl = Flow(f)
        names = {v: int(k) for k, v in f.names.items() if k.isdigit()}
        snap, cache = names.get("snapshot"), names.get("pack_cache")
        if snap is None or cache is None:
            chk.anchor_lost("try_find_cached_inner: parameters snapshot / pack_cache")
            continue
        repl = [(bi, ln) for bi, si, pl, rv, ln, mc in f.assigns() if pl[:2] == [snap, "*"] and len(pl) == 2]
        chk.floor("snapshot replacements in try_find_cached_inner", len(repl), 1)
        # calls that receive the cache itself (not something computed with its help); handing it on to the decoder is not an invalidation
        inval = [c for c in f.calls() if any(any(r[0] == "arg" and r[1] == cache for r in fl.roots(a, stop_named=False, through_calls=False)) for a in c.args if "p" in a)
                 and not c.is_(r"decode_entry$|try_find\w*$|find_inner$|::(deref|deref_mut|borrow|borrow_mut|as_mut|as_ref)$")]
        for bi, ln in repl:
            ok = any(c.block in f.reach_from(bi) for c in inval)
            chk.ob("slot-reuse-invalidates-delta-cache", "try_find_cached_inner snapshot replaced@%d" % ln, ok,
                   "after a refresh the snapshot is replaced but the delta cache (keyed by slot index and offset) is left alone: once a deleted pack's slot is reused, a cached delta of the old pack is returned for an object of the new one",
                   "%s:%d" % (f.file, ln), key="cache-invalidation|try_find_cached_inner")


def copy_helper_rule(db, chk):
    """the caches hand objects back by copying them into a buffer the caller re-uses (set_vec_to_slice): after a successful call the buffer
    holds exactly `source`.  So no path to a `Some` return avoids emptying the buffer first (clear/truncate(0)) - an early return for an empty
    source would give the previous object's bytes back for an empty blob or the empty tree."""
    fs = [f for f in db.by_crate["gix_pack"] if f.kind != "promoted" and re.search(r"cache::set_vec_to_slice$", f.name)]
    chk.floor("gix_pack::cache::set_vec_to_slice", len(fs), 1)
    for f in fs:
        clears = [c for c in f.calls() if c.is_(r"Vec::<T, A>::clear$|Vec<T, A>>::clear$|::clear$|::truncate$")]
        somes = [bi for bi, si, pl, rv, ln, mc in f.assigns() if pl == [0] and rv[0] == "agg" and rv[3] == "Some"]
        r = f.reach_from(0, avoid={c.block for c in clears})
        chk.ob("copy-helper-overwrites-buffer", "set_vec_to_slice", bool(clears) and bool(somes) and not any(b in r for b in somes),
               "a successful return is reachable without clearing the output buffer: the caller's re-used buffer keeps the previous object's bytes (empty objects read back as the object decoded before)",
               "%s:%d" % (f.file, f.line), key="copy-helper|set_vec_to_slice")
