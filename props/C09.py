"""C09 Pack / multi-pack index layout constants and shared lookup (TAB + CG)."""
TECHNIQUE = "format-constant table vs spec, writer/reader constant agreement by use-site (operator context), shared-callee check"
EXPLANATION = ("For gix-pack's .idx and multi-pack-index code: layout constants are const-evaluated and compared with git's pack-format "
               "documentation (signature \\377tOc, fan 256, 4/8-byte entries, 31-bit offsets with the high bit selecting the 64-bit table, "
               "MIDX chunk ids); the writer's large-offset threshold and high-bit constants agree with the readers' masks and each is used in "
               "the expected operator context (writer: `>` threshold and `|` high bit; readers: `&` and `^` high bit); every MIDX chunk id and "
               "both signatures are referenced by both the writer and the reader; both index kinds delegate lookup and prefix lookup to the one "
               "shared bisection in index::access. Both fan-out bisections start their lower bound at the constant 0 for first byte 0 "
               "(shared rule with the commit-graph lookup). Every read of a fan-out table at `first byte - 1` anywhere in gix-pack lies behind a `!= 0` test. Agreement of bisection with a linear scan over all indices is not decided.")
P = "gix_pack::"
SPEC_INT = {"index::FAN_LEN": 256, "index::access::N32_SIZE": 4, "index::access::N64_SIZE": 8, "index::access::V1_HEADER_SIZE": 1024,
            "index::access::V2_HEADER_SIZE": 1032, "index::access::N32_HIGH_BIT": 1 << 31, "index::encode::HIGH_BIT": 1 << 31,
            "index::encode::LARGE_OFFSET_THRESHOLD": (1 << 31) - 1, "index::init::N32_SIZE": 4,
            "multi_index::access::<impl gix_pack::multi_index::File>::pack_id_and_pack_offset_at_index::HIGH_BIT": 1 << 31,
            "multi_index::access::<impl gix_pack::multi_index::File>::pack_id_and_pack_offset_at_index::OFFSET_ENTRY_SIZE": 8,
            "multi_index::chunk::fanout::SIZE": 1024, "multi_index::write::<impl gix_pack::multi_index::File>::HEADER_LEN": 12}
SPEC_BYTES = {"index::V2_SIGNATURE": b"\xfftOc", "multi_index::write::<impl gix_pack::multi_index::File>::SIGNATURE": b"MIDX",
              "multi_index::chunk::index_names::ID": b"PNAM", "multi_index::chunk::fanout::ID": b"OIDF", "multi_index::chunk::lookup::ID": b"OIDL",
              "multi_index::chunk::offsets::ID": b"OOFF", "multi_index::chunk::large_offsets::ID": b"LOFF"}
USES = [  # (constant, function regex, operator/callee contexts that must all occur)
    ("index::encode::LARGE_OFFSET_THRESHOLD", r"index::encode::function::write_to$", {"Gt"}),
    ("index::encode::HIGH_BIT", r"index::encode::function::write_to$", {"BitOr"}),
    ("index::encode::LARGE_OFFSET_THRESHOLD", r"multi_index::chunk::offsets::write$", {"Gt"}),
    ("index::encode::HIGH_BIT", r"multi_index::chunk::offsets::write$", {"BitOr"}),
    ("index::encode::LARGE_OFFSET_THRESHOLD", r"multi_index::chunk::large_offsets::num_large_offsets$", {"Gt"}),
    ("index::access::N32_HIGH_BIT", r"index::File>::pack_offset_from_offset_v2$", {"BitAnd", "BitXor"}),
    ("multi_index::access::<impl gix_pack::multi_index::File>::pack_id_and_pack_offset_at_index::HIGH_BIT", r"multi_index::File>::pack_id_and_pack_offset_at_index$", {"BitAnd", "BitXor"}),
    ("index::V2_SIGNATURE", r"index::encode::function::write_to$", None),
    ("index::V2_SIGNATURE", r"index::File>::at_inner", None),
    ("multi_index::write::<impl gix_pack::multi_index::File>::SIGNATURE", r"multi_index::File>::write_header$", None),
    ("multi_index::write::<impl gix_pack::multi_index::File>::SIGNATURE", r"for gix_pack::multi_index::File>::try_from", None),
]
import re


def run(db, chk):
    midx_high_bit_rule(db, chk)
    for n, want in SPEC_INT.items():
        c = db.const(P + n)
        chk.ob("spec-constant", n, c.get("v") == want, "is %r, format says %r" % (c.get("v"), want), "%s:%d" % (c["file"], c["line"]), key="spec-constant|" + n)
    for n, want in SPEC_BYTES.items():
        c = db.const(P + n)
        got = bytes.fromhex(c.get("bytes", ""))
        chk.ob("spec-constant", n, got == want, "is %r, format says %r" % (got, want), "%s:%d" % (c["file"], c["line"]), key="spec-constant|" + n)
    thr = db.const(P + "index::encode::LARGE_OFFSET_THRESHOLD")["v"]
    hb = db.const(P + "index::encode::HIGH_BIT")["v"]
    chk.ob("writer-reader-agree", "threshold == HIGH_BIT-1 == N32_HIGH_BIT-1", thr == hb - 1 == db.const(P + "index::access::N32_HIGH_BIT")["v"] - 1, "", key="writer-reader-agree|high-bit")
    uses = db.const_uses(["gix_pack"])
    for cn, frx, ctxs in USES:
        us = [(f, ctx) for f, bi, ctx in uses.get(P + cn, []) if re.search(frx, f.name)]
        ops = {ctx[1] for f, ctx in us}
        ok = bool(us) and (ctxs is None or ctxs <= ops)
        chk.ob("constant-used-in-context", "%s in %s" % (cn.split("::")[-1], frx.strip("$")), ok, "contexts found %s, need %s" % (sorted(ops), ctxs), key="constant-used-in-context|%s|%s" % (cn, frx))
    for cid in ("index_names", "fanout", "lookup", "offsets", "large_offsets"):
        us = uses.get(P + "multi_index::chunk::%s::ID" % cid, [])
        w = any(re.search(r"write_from_index_paths$", f.name) and ctx[0] == "call" and ctx[1].endswith("plan_chunk") for f, bi, ctx in us)
        r = any(re.search(r"for gix_pack::multi_index::File>::try_from$", f.name) and ctx[0] == "call" and re.search(r"(data_by_id|offset_by_id)$", ctx[1]) for f, bi, ctx in us)
        chk.ob("chunk-id-shared", "MIDX chunk %s" % cid, w and r, "writer plans it: %s, reader looks it up: %s" % (w, r), key="chunk-id-shared|" + cid)
    shared_p = "gix_pack::index::access::lookup_prefix"
    shared_l = "gix_pack::index::access::lookup"
    for nm, callee in ((r"^gix_pack::index::access::<impl gix_pack::index::File>::lookup_prefix$", shared_p),
                       (r"^gix_pack::multi_index::access::<impl gix_pack::multi_index::File>::lookup_prefix$", shared_p),
                       (r"^gix_pack::index::access::<impl gix_pack::index::File>::lookup$", shared_l),
                       (r"^gix_pack::multi_index::access::<impl gix_pack::multi_index::File>::lookup$", shared_l)):
        f = db.one(nm)
        chk.ob("shared-bisection", f.name.split("gix_pack::")[-1], any(callee in c.names for c in f.calls()), "must delegate to %s" % callee, "%s:%d" % (f.file, f.line), key="shared-bisection|" + f.name)
    chk.set("constants_checked", len(SPEC_INT) + len(SPEC_BYTES))
    # fan-out bisection bounds (shared rule with C14)
    from props import _fan
    for pat, label in ((r"^gix_pack::index::access::lookup$", "index::access::lookup"), (r"^gix_pack::index::access::lookup_prefix$", "index::access::lookup_prefix")):
        _fan.fan_bounds(chk, db.one(pat), label)
    _fan.fan_index_rule(db, chk, ["gix_pack"], 4)


def midx_high_bit_rule(db, chk):
    """multi-pack index writer: an offset entry may carry the high bit (= index into the large-offsets chunk) only if that chunk is written. The
    reader interprets the bit only when the chunk exists, so in offsets::write the `| HIGH_BIT` must lie behind the true edge of a test of a boolean
    PARAMETER (whether large offsets are needed), not only behind the comparison with the 31-bit threshold."""
    from gx.flow import Flow
    f = db.one(r"^gix_pack::multi_index::chunk::offsets::write$")
    fl = Flow(f)
    ors = [(bi, ln) for bi, si, pl, rv, ln, mc in f.assigns() if rv[0] == "bin" and rv[1] == "BitOr" and any(str(o.get("def", "")).endswith("::HIGH_BIT") for o in (rv[2], rv[3]) if isinstance(o, dict))]
    chk.floor("multi_index offsets::write: `| HIGH_BIT`", len(ors), 1)
    bool_params = [i for i in range(1, f.argc + 1) if f.locals[i] == "bool"]
    edges = set()
    for bi in f.reachable_blocks():
        t = f.term(bi)
        if t[0] == "switch" and "p" in t[1] and any(r[0] == "arg" and r[1] in bool_params for r in fl.roots(t[1], stop_named=False)):
            edges |= {(bi, x) for v, x in t[2] if v != 0} | ({(bi, t[3])} if all(v == 0 for v, x in t[2]) else set())
    for bi, ln in ors:
        chk.ob("midx-high-bit-only-with-large-offsets-chunk", "offsets::write `| HIGH_BIT`@%d" % ln, bool(edges) and fl.cut_off([bi], edges),
               "the high bit is set whenever an offset exceeds 31 bits, independent of whether a large-offsets chunk is written: with the largest offset between 2 GiB and 4 GiB there is no such chunk and readers take the value literally (0x8000_0000 + n)",
               "%s:%d" % (f.file, ln), key="midx-high-bit|offsets::write")
