"""C10 Indexing a received pack — persist ordering and ownership (DOM + TYPE/CG)."""
import re
from gx.flow import Flow

TECHNIQUE = "guard cut-set (nothing is moved into place unless index writing returned Ok), ordering of the two persists, effect allow-list of the function"
EXPLANATION = ("In gix_pack::Bundle::inner_write: both persist calls (pack, then index) and the .keep marker are cut off from entry once the Ok edge of "
               "index::File::write_data_iter_to_stream is removed (the whole stream was consumed and verified first); the index persist is unreachable "
               "without having passed the pack persist or the `data_path.is_file()` test; the pack persist cannot follow the index persist; the only "
               "file-creating calls in the function are the keep marker, the two tempfile persists and the tempfile creation; both files are gix_tempfile "
               "handles (removed on every early return). Equality with `git index-pack` and thread-count independence are not decided.")
FSM = re.compile(r"(^std::fs::(write|rename|copy|hard_link|create_dir|create_dir_all|remove_file)$|^std::fs::File::(create|create_new)$|fs::OpenOptions::open$)")


def run(db, chk):
    f = db.one(r"^gix_pack::bundle::write::<impl gix_pack::Bundle>::inner_write$")
    fl = Flow(f)
    wd = f.calls_to(r"index::File>::write_data_iter_to_stream$|write_data_iter_to_stream$")
    persists = [c for c in f.calls() if c.is_(r"::persist$")]
    keep = f.calls_to(r"^std::fs::write$")
    chk.floor("write_data_iter_to_stream calls", len(wd), 2)
    chk.floor("persist calls", len(persists), 2)
    good = set()
    for c in wd:
        good |= fl.result_edges(c)["good"]
    chk.ob("persist-after-verified-index", "inner_write", bool(good) and fl.cut_off([p.block for p in persists] + [k.block for k in keep], good),
           "a file can be moved into place although index writing did not return Ok", "%s:%d" % (f.file, f.line), key="persist-after-verified-index")
    data_p = [p for p in persists if any(r[0] == "var" and r[2] == "data_path" for r in fl.roots(p.args[1]))]
    idx_p = [p for p in persists if any(r[0] == "var" and r[2] == "index_path" for r in fl.roots(p.args[1]))]
    chk.floor("pack persist (onto data_path)", len(data_p), 1)
    chk.floor("index persist (onto index_path)", len(idx_p), 1)
    isfile = [c for c in f.calls_to(r"Path::is_file$") if any(r[0] == "var" and r[2] == "data_path" for r in fl.roots(c.args[0]))]
    chk.floor("data_path.is_file() test", len(isfile), 1)
    for ip in idx_p:
        ok = ip.block not in f.reach_from(0, avoid={d.block for d in data_p} | {c.block for c in isfile})
        chk.ob("pack-before-index", "index persist", ok, "the index can be moved into place without the pack being in place (or known to exist)", ip.where(), key="pack-before-index")
        for dp in data_p:
            chk.ob("pack-before-index", "no pack persist after index persist", dp.block not in f.reach_from(ip.block), "", dp.where(), key="no-pack-after-index")
    # the pack persist happens only on the not-a-file edge and its error returns
    for dp in data_p:
        e = fl.result_edges(dp)
        rb = set()
        for (_, t) in e["bad"]:
            rb |= f.reach_from(t)
        chk.ob("failed-pack-persist-stops", "inner_write", bool(e["bad"]) and not any(ip.block in rb for ip in idx_p), "index is persisted although persisting the pack failed", dp.where(), key="failed-pack-persist-stops")
    eff = [(c.name, c.line) for g in [f] + db.closures_of(f) for c in g.calls() if FSM.search(c.name)]
    chk.ob("fs-effect-allow-list", "inner_write direct file-system effects", sorted({e[0] for e in eff}) == ["std::fs::write"], str(eff), "%s:%d" % (f.file, f.line), key="fs-effect|inner_write")
    # thin-pack completion rewrites entry headers: the CRC32 that ends up in the index must be recomputed with them
    nh = 0
    for g in db.by_crate["gix_pack"]:
        if "::data::input::" not in g.name or g.kind == "promoted":
            continue
        gfl = None
        for bi, si, pl, rv, ln, mc in g.assigns():
            if len(pl) >= 2 and pl[-1] == ".header" and "input::types::Entry" in g.locals[pl[0]].replace("gix_pack::data::input::Entry", "input::types::Entry") or \
               (len(pl) >= 2 and pl[-1] == ".header" and re.search(r"data::input::(types::)?Entry", g.locals[pl[0]])):
                nh += 1
                base = pl[0]
                crc_blocks = {b2 for b2, s2, pl2, rv2, l2, m2 in g.assigns() if len(pl2) >= 2 and pl2[-1] == ".crc32" and pl2[0] == base}
                if bi in crc_blocks and any(s2 > si for b2, s2, pl2, rv2, l2, m2 in g.assigns() if b2 == bi and len(pl2) >= 2 and pl2[-1] == ".crc32" and pl2[0] == base):
                    ok = True
                else:
                    escaped = g.reach_from(bi, avoid=crc_blocks - {bi})
                    ok = not (set(g.return_blocks()) & escaped)
                chk.ob("crc-recomputed-with-header", "%s header rewritten@%d" % (g.name.split("gix_pack::data::input::")[-1], ln), ok,
                       "an entry's header is rewritten without recomputing its crc32 on every path to return: the index would store a CRC that does not match the pack bytes", "%s:%d" % (g.file, ln), key="crc-with-header|%s" % g.name)
    chk.floor("entry header rewrites in data::input", nh, 1)
    # tempfile ownership
    tys = " ".join(f.locals)
    chk.ob("tempfile-ownership", "index file is a gix_tempfile::Handle", "gix_tempfile::Handle<gix_tempfile::handle::Writable>" in tys, "", key="tempfile|index")
    newtf = f.calls_to(r"^gix_tempfile::new$")
    chk.ob("tempfile-ownership", "index tempfile created via gix_tempfile::new with AutoRemove", len(newtf) == 1, "", key="tempfile|new")
