"""C11 Loose objects — size discipline on read (DOM cut-set), write path provenance (FLOW)."""
import re
from gx.flow import Flow, comparisons, bool_switch_edges

TECHNIQUE = "guard cut-set on the reader (object data is returned only past an equality test of inflated length against header size + header length), provenance rules on the writer (path from the digest of the very stream that was written; only create_dir and tempfile persist touch the object directory)"
EXPLANATION = ("loose::Store::find_inner: the Ok(Data) construction is cut off from entry once the `equal` edges of the inflated-size comparisons are removed; "
               "each such comparison's `different` edge leads to Error::SizeMismatch and relates a count derived from the inflater to size + header_size from the "
               "parsed loose header (one per branch: complete-in-one-go and continued inflate). loose::Store::finalize_object: the object id is the digest of "
               "the hash::Write that wrapped the compressed tempfile, the path is hash_path(id), the file reaches objects/ only through tempfile persist onto that "
               "path, and the only other file-system call is create_dir of its parent; write/write_buf/write_stream finalize the same writer they wrote header "
               "and content to; on the gix_odb functions reachable from those entry points the count returned by io::Read::read is compared with the constant 0 only "
               "(a short read is not end-of-stream). The deflate writer reports all bytes it consumed (C56's count-measured-from-entry, evaluated here too). Byte-exact git compatibility is not decided.")
P = r"gix_odb::store_impls::loose::"


READ = r"io::Read::read\??$|io::Read>::read$"


def short_read_rule(chk, fns):
    """(number of read calls, number of comparisons on their counts); reports comparisons of a read count with anything but the constant 0"""
    n_reads = n_cmp = 0
    for g in fns:
        reads = g.calls_to(READ)
        if not reads:
            continue
        n_reads += len(reads)
        gfl = Flow(g)
        for cm in comparisons(g):
            for side, other in (("a", "b"), ("b", "a")):
                if "p" not in cm[side]:
                    continue
                rs = [r for r in gfl.roots(cm[side], stop_named=False, sites=True) if r[0] == "call" and re.search(READ, r[1])]
                if not rs:
                    continue
                n_cmp += 1
                zero = "p" not in cm[other] and cm[other].get("v") == 0
                if not zero and chk is not None:
                    chk.ob("stream-copied-to-eof", "%s line %d" % (g.name, cm["line"]), False,
                           "the count returned by read() is compared with something other than 0; a short read is not end-of-stream, the object would be stored truncated under a wrong id",
                           "%s:%d" % (g.file, cm["line"]), key="short-read|%s" % g.name)
    return n_reads, n_cmp


def run(db, chk):
    deflate_count_rule(db, chk)
    f = db.one("^" + P + r"find::<impl gix_odb::store_impls::loose::Store>::find_inner$")
    fl = Flow(f)
    oks = [bi for bi, si, pl, rv, ln, mc in f.assigns() if rv[0] == "agg" and rv[1] == "adt" and rv[2].endswith("gix_object::Data")]
    mism = [bi for bi, si, pl, rv, ln, mc in f.assigns() if rv[0] == "agg" and rv[3] == "SizeMismatch"]
    chk.floor("Data construction in find_inner", len(oks), 1)
    chk.floor("SizeMismatch constructions", len(mism), 1)
    # per inflate call site: the count IT returned must take part in an equality test against the header's size on every path to Ok(Data)
    inflates = [c for c in f.calls() if c.is_(r"(Inflate::once|inflate::read)$")]
    chk.floor("inflate calls in find_inner (first block + remainder)", len(inflates), 1)
    cmps = []
    for c in comparisons(f):
        if c["op"] not in ("Ne", "Eq"):
            continue
        e = bool_switch_edges(f, c["block"], c["res"])
        if not e:
            continue
        te, fe = e
        diff, same = (te, fe) if c["op"] == "Ne" else (fe, te)
        rd = set().union(*[f.reach_from(t) for _, t in diff]) if diff else set()
        if not (set(mism) & rd) or (set(oks) & rd):
            continue
        ra = fl.roots(c["a"], stop_named=False, sites=True) | fl.roots(c["b"], stop_named=False, sites=True)
        if not any(r[0] == "call" and r[1].endswith("decode::loose_header") for r in ra):
            continue
        sites = {r[2] for r in ra if r[0] == "call" and re.search(r"(Inflate::once|inflate::read)$", r[1])}
        cmps.append((same, sites, c["line"]))
    chk.floor("size guards (inflated length vs header size)", len(cmps), 1)
    for ic in inflates:
        edges = set()
        for same, sites, ln in cmps:
            if ic.block in sites:
                edges |= same
        ok = bool(edges) and fl.cut_off(oks, edges, start=ic.block)
        chk.ob("data-only-after-size-check", "find_inner after %s@%d" % (ic.name.split("::")[-1], ic.line), ok,
               "object data can be returned although the byte count this inflate call reported was never compared with the size declared in the header (a truncated file would be returned zero-padded)",
               ic.where(), key="data-only-after-size-check|%s" % ic.name.split("::")[-1])
    # writer
    fo = db.one("^" + P + r"write::<impl gix_odb::store_impls::loose::Store>::finalize_object$")
    ofl = Flow(fo)
    dig = fo.calls_to(r"::digest$")
    hp = fo.calls_to(r"loose::hash_path$")
    ps = fo.calls_to(r"::persist$")
    chk.floor("digest / hash_path / persist in finalize_object", min(len(dig), len(hp), len(ps)), 1)
    if dig and hp and ps:
        r_d = ofl.roots(dig[0].args[0], stop_named=False)
        chk.ob("path-from-own-digest", "digest of the writer's hasher", any(x[0] == "arg" and x[1] == 2 and ".hash" in x[2] for x in r_d), str(sorted(map(str, r_d)))[:160], dig[0].where(), key="path-from-own-digest|digest")
        chk.ob("path-from-own-digest", "hash_path(id from digest)", ofl.derives_from_call(hp[0].args[0], r"::digest$"), "", hp[0].where(), key="path-from-own-digest|hash_path")
        chk.ob("path-from-own-digest", "persist target is the object path", ofl.derives_from_call(ps[0].args[1], r"loose::hash_path$"), "", ps[0].where(), key="path-from-own-digest|target")
        r_p = ofl.roots(ps[0].args[0], stop_named=False)
        chk.ob("path-from-own-digest", "persisted file is the writer's inner file", any(x[0] == "arg" and x[1] == 2 and ".inner" in x[2] for x in r_p), str(sorted(map(str, r_p)))[:160], ps[0].where(), key="path-from-own-digest|file")
    eff = sorted({c.name for g in [fo] + db.closures_of(fo) for c in g.calls() if re.search(r"^std::fs::|OpenOptions::open$", c.name)})
    chk.ob("fs-effect-allow-list", "finalize_object", eff == ["std::fs::create_dir"], str(eff), "%s:%d" % (fo.file, fo.line), key="fs-effect|finalize_object")
    n = 0
    for nm in ("write", "write_buf", "write_stream"):
        w = db.one("^" + P + r"write::<impl gix_odb::traits::Write for gix_odb::store_impls::loose::Store>::%s$" % nm)
        wfl = Flow(w)
        fin = w.calls_to(r"Store>::finalize_object$")
        dst = w.calls_to(r"Store>::dest$")
        ok = len(fin) == 1 and len(dst) == 1 and wfl.derives_from_call(fin[0].args[1], r"Store>::dest$")
        chk.ob("finalize-the-written-stream", nm, ok, "finalize_object must receive the writer created by dest()", "%s:%d" % (w.file, w.line), key="finalize-the-written-stream|%s" % nm)
        outs = [c for c in w.calls() if c.is_(r"io::Write::write_all$|WriteTo::write_to$|std::io::copy$|io::copy::copy$")]
        n += len(outs)
        for o in outs:
            tgt = o.args[0] if not o.is_(r"WriteTo::write_to$|copy$") else o.args[1]
            chk.ob("content-goes-to-the-hashed-stream", "%s %s@%d" % (nm, o.name.split("::")[-1], o.line), wfl.derives_from_call(tgt, r"Store>::dest$"), "", o.where(), key="content-to-stream|%s|%s" % (nm, o.name.split("::")[-1]))
    chk.floor("content writes in write/write_buf/write_stream", n, 5)
    # (5) the stream is copied to its end: only `read() == 0` means EOF.  Every io::Read::read call in the gix_odb functions reachable from the
    # three write entry points may have its count compared with the constant 0 only (a short read is not the end of the stream).
    entry = [db.one("^" + P + r"write::<impl gix_odb::traits::Write for gix_odb::store_impls::loose::Store>::%s$" % nm).key for nm in ("write", "write_buf", "write_stream")]
    reach = db.reachable(entry, stop=lambda n_: not (n_.startswith("gix_odb::") or n_.startswith("<gix_odb::")))
    fam = [g for g in db.by_crate["gix_odb"] if g.key in reach or g.name in reach]
    chk.floor("gix_odb functions reachable from the loose write entry points", len(fam), 5)
    n_reads, n_cmp = short_read_rule(chk, fam)
    chk.set("read_calls_on_write_path", n_reads)
    # positive control for a zero-expected rule: the matcher must recognise `read(..)` counts compared with 0 somewhere in the workspace
    ctl = 0
    for g in db.fns.values():
        if g.crate in ("gix_features", "gix_packetline", "gix_pack", "gix_transport", "gix_filter") and g.calls_to(READ):
            r_, c_ = short_read_rule(None, [g])
            ctl += c_
    chk.floor("control: read-count comparisons recognised elsewhere in the workspace", ctl, 1)
    d = db.one("^" + P + r"write::<impl gix_odb::store_impls::loose::Store>::dest$")
    chk.ob("hash-wraps-compressor", "dest()", bool(d.calls_to(r"hash::Write::<T>::new$|hash::write::Write::<T>::new$|hash::Write<T>>::new$")) and bool(d.calls_to(r"deflate::Write::<W>::new$|deflate::Write<W>>::new$")) and bool(d.calls_to(r"::tempfile_in$")),
           "dest() must build hash::Write(deflate::Write(tempfile in the objects dir))", "%s:%d" % (d.file, d.line), key="hash-wraps-compressor")


def deflate_count_rule(db, chk):
    """every loose object is written through hash::Write<deflate::Write<file>>: if deflate's write() reports fewer bytes than it consumed, write_all
    feeds the rest again and the stored stream inflates to the object plus duplicated spans - under the id of the original.  Same rule as C56
    (count-measured-from-entry), evaluated here because it decides C11's round trip for objects larger than one deflate block."""
    from props.C56 import count_from_entry_rule
    wi = db.one(r"^gix_features::zlib::stream::deflate::impls::<impl gix_features::zlib::stream::deflate::Write<W>>::write_inner$")
    comp = wi.calls_to(r"Compress::compress$")
    ls = [l for l in wi.loops() if any(c.block in l["body"] for c in comp)]
    chk.floor("deflate write_inner: compress loop", len(ls), 1)
    count_from_entry_rule(chk, wi, Flow(wi), ls)
