"""C12 Lookups during repacking — store-order and lock-witness clauses of the slot map (DOM/TYPE)."""
import re
from gx.flow import Flow, comparisons, bool_switch_edges

TECHNIQUE = "ordering/dominance rules over MIR: generation.store(SeqCst) dominates every whole-value slot replacement, which is published by files.store under the slot's write lock; memory-ordering census; MutexGuard witness parameters"
EXPLANATION = ("In gix-odb's dynamic store (load_index.rs): every ArcSwap store into a slot's `files` happens while the slot's `write` mutex guard is live; "
               "every whole-value replacement of a slot's content (assignment through the Arc::make_mut place) is dominated by a `generation.store(.., SeqCst)` on the "
               "same slot and dominates the `files.store` that publishes it; every atomic operation in the module uses SeqCst; the slot-mutating helpers take a "
               "`&MutexGuard` witness and consolidate_with_disk_state locks `self.write` before calling them; loading an index into its slot is on the "
               "not-newer edge of the `generation > index.generation` re-check. Slot assignment in consolidate_with_disk_state: no try_set_index_slot call without the `not contained` edge of a membership test on the slots kept in this pass; "
               "a slot given a new file is excluded from, or purged out of, the to-be-cleared list; an assignment needs_generation_change = true is control-dependent on that list being non-empty. "
               "Reader side: markers handed to load_pack / load_one_index are read from the snapshot inside the retry loop. The slot map is sized from a count that sees every index file (multi-pack-index hash None). Linearizability under all interleavings is not decided.")
FILE = "gix-odb/src/store_impls/dynamic/load_index.rs"


def recv_field(fl, call):
    return {r[2][-1] for r in fl.roots(call.args[0], stop_named=False) if r[0] in ("arg", "var") and len(r) > 2 and r[2]} | \
           {r[3][-1] for r in fl.roots(call.args[0], stop_named=True) if r[0] == "var" and r[3]}


def run(db, chk):
    marker_freshness_rule(db, chk)
    slot_assignment_rules(db, chk)
    slot_sizing_rule(db, chk)
    fns = [f for f in db.by_crate["gix_odb"] if f.file == FILE and f.kind != "promoted"]
    chk.floor("functions in load_index.rs", len(fns), 25)
    n_store = n_repl = n_atomic = 0
    for f in fns:
        fl = Flow(f)
        stores = [c for c in f.calls() if c.is_(r"arc_swap::ArcSwapAny::<T, S>::store$") and ".files" in recv_field(fl, c)]
        gens = [c for c in f.calls() if c.is_(r"atomic::Atomic(U\w+|::<\w+>)?::store$|Atomic<\w+>::store$|AtomicU\d+::store$") and ".generation" in recv_field(fl, c)]
        locks = [c for c in f.calls() if c.is_(r"::lock$") and ".write" in recv_field(fl, c)]
        mm = [c.dest[0] for c in f.calls() if c.is_(r"Arc::<T, A>::make_mut$|Arc::<T>::make_mut$")]
        # derived (e.g. as_mut().expect(..)) places are in-place changes, only direct deref-assignments replace the value
        repl = [(bi, ln) for bi, si, pl, rv, ln, mc in f.assigns() if len(pl) == 2 and pl[1] == "*" and pl[0] in mm]
        for s in stores:
            n_store += 1
            dom_locks = [l for l in locks if f.dominates(l.block, s.block)]
            guard_dropped = False
            for l in dom_locks:
                g = l.dest[0]
                for bi in f.reachable_blocks():
                    t = f.term(bi)
                    if t[0] == "drop" and t[1] == [g] and not f.is_cleanup(bi) and f.dominates(bi, s.block):
                        guard_dropped = True
            chk.ob("files-store-under-slot-lock", "%s files.store@%d" % (f.name.split("::")[-1], s.line), bool(dom_locks) and not guard_dropped,
                   "slot.files.store without the slot's write lock held", s.where(), key="files-store-under-lock|%s" % f.name)
        for (bi, ln) in repl:
            n_repl += 1
            g_ok = [g for g in gens if f.dominates(g.block, bi) and g.block != bi or (g.block == bi)]
            g_ok = [g for g in gens if f.dominates(g.block, bi)]
            seq = all(any(rv[0] == "agg" and rv[3] == "SeqCst" and pl == [g.args[2]["p"][0]] for b2, s2, pl, rv, l2, m2 in f.assigns()) for g in g_ok if "p" in g.args[2])
            hs = [l for l in f.loops() if bi in l["body"]]
            H = min(hs, key=lambda l: len(l["body"]))["header"] if hs else None
            escaped = f.reach_from(bi, avoid={s_.block for s_ in stores}) if bi not in {s_.block for s_ in stores} else set()
            pub = bool(stores) and not (set(f.return_blocks()) & escaped) and (H is None or H not in escaped or H == bi)
            chk.ob("generation-before-replacement", "%s slot value replaced@%d" % (f.name.split("::")[-1], ln), bool(g_ok) and seq,
                   "a slot's content is replaced without a dominating generation.store(SeqCst): readers of an old generation could observe the new value", "%s:%d" % (f.file, ln), key="generation-before-replacement|%s" % f.name)
            chk.ob("replacement-is-published", "%s slot value replaced@%d" % (f.name.split("::")[-1], ln), pub, "a path from the replacement leaves the iteration/function without files.store", "%s:%d" % (f.file, ln), key="replacement-published|%s" % f.name)
        # ordering census
        for c in f.calls():
            if re.search(r"sync::atomic::Atomic", c.name) and re.search(r"::(load|store|fetch_\w+|swap|compare_exchange\w*)$", c.name) and \
                    recv_field(fl, c) & {".generation", ".loaded_indices", ".num_indices_currently_being_loaded"}:
                n_atomic += 1
                ords = []
                for a in c.args[1:]:
                    if "p" in a:
                        for b2, s2, pl, rv, l2, m2 in f.assigns():
                            if pl == [a["p"][0]] and rv[0] == "agg" and rv[2].endswith("atomic::Ordering"):
                                ords.append(rv[3])
                    elif a.get("variant"):
                        ords.append(a["variant"])
                chk.ob("seqcst-everywhere", "%s %s@%d" % (f.name.split("::")[-1], c.name.split("::")[-1], c.line), bool(ords) and all(o == "SeqCst" for o in ords), "orderings %s" % ords, c.where(), key="seqcst|%s|%s" % (f.name, c.name.split("::")[-1]))
    chk.floor("files.store sites", n_store, 4)
    chk.floor("whole-value slot replacements", n_repl, 2)
    chk.floor("atomic operations on generation/loaded_indices/num_indices_currently_being_loaded", n_atomic, 5)
    for h in ("try_set_index_slot", "set_slot_to_index", "assure_slot_matches_index", "maintain_stable_indices"):
        f = db.one(r"^gix_odb::store_impls::dynamic::load_index::<impl gix_odb::Store>::%s$" % h)
        has = any("MutexGuard" in f.locals[i] for i in range(1, f.argc + 1))
        chk.ob("lock-witness-parameter", h, has, "helper must take a &MutexGuard witness", "%s:%d" % (f.file, f.line), key="lock-witness|%s" % h)
    cw = db.one(r"^gix_odb::store_impls::dynamic::load_index::<impl gix_odb::Store>::consolidate_with_disk_state$")
    cfl = Flow(cw)
    lk = [c for c in cw.calls() if c.is_(r"::lock$") and ".write" in recv_field(cfl, c) and any(r[0] == "arg" and r[1] == 1 for r in cfl.roots(c.args[0], stop_named=False))]
    helpers = [c for c in cw.calls() if c.is_(r"Store>::(try_set_index_slot|set_slot_to_index|assure_slot_matches_index|maintain_stable_indices)$")]
    chk.floor("helper calls in consolidate_with_disk_state", len(helpers), 2)
    chk.ob("lock-before-slot-mutation", "consolidate_with_disk_state", len(lk) >= 1 and all(any(cw.dominates(l.block, h.block) for l in lk) for h in helpers), "self.write must be locked before any slot-mutating helper", "%s:%d" % (cw.file, cw.line), key="lock-before-slot-mutation")
    # the generation must change if ANY slot was overwritten in a refresh: the flag that requests it is monotone
    # (only ever set to true, or or-ed with itself) after its initialisation
    flags = cw.locals_named("needs_generation_change")
    chk.floor("needs_generation_change flag", len(flags), 1)
    nset = 0
    for bi, si, pl, rv, ln, mc in cw.assigns():
        if len(pl) == 1 and pl[0] in flags:
            nset += 1
            first = not any(cw.dominates(b2, bi) and (b2, s2) != (bi, si) for b2, s2, pl2, rv2, l2, m2 in cw.assigns() if len(pl2) == 1 and pl2[0] in flags)
            mono = (rv[0] == "use" and rv[1].get("v") == 1) or (rv[0] == "bin" and rv[1] == "BitOr" and any("p" in o and o["p"] == pl for o in (rv[2], rv[3])))
            init = rv[0] == "use" and rv[1].get("v") == 0 and first
            chk.ob("generation-flag-monotone", "consolidate_with_disk_state assignment@%d" % ln, mono or init,
                   "needs_generation_change is overwritten with a computed value: a later index landing in an empty slot would cancel the generation change demanded by an earlier overwritten slot",
                   "%s:%d" % (cw.file, ln), key="generation-flag-monotone")
    chk.floor("assignments to needs_generation_change (initialisation + at least one set)", nset, 2)
    gen_sel = [c for c in comparisons(cw)]
    # re-check before loading an index into its slot
    ln_ = db.one(r"^gix_odb::store_impls::dynamic::load_index::<impl gix_odb::Store>::load_next_index$")
    for g in [ln_] + db.closures_of(ln_):
        if g.kind == "promoted":
            continue
        gfl = Flow(g)
        st = [c for c in g.calls() if c.is_(r"arc_swap::ArcSwapAny::<T, S>::store$") and ".files" in recv_field(gfl, c)]
        for s in st:
            ok = False
            for cmp in comparisons(g):
                if cmp["op"] in ("Gt", "Lt", "Ge", "Le") and (gfl.derives_from_call(cmp["a"], r"::load$") or gfl.derives_from_call(cmp["b"], r"::load$")):
                    e = bool_switch_edges(g, cmp["block"], cmp["res"])
                    if e and g.dominates(cmp["block"], s.block):
                        te, fe = e
                        newer = te if (cmp["op"] in ("Gt", "Ge") and gfl.derives_from_call(cmp["a"], r"::load$")) or (cmp["op"] in ("Lt", "Le") and gfl.derives_from_call(cmp["b"], r"::load$")) else fe
                        if s.block not in set().union(*[g.reach_from(t) for _, t in newer]) - set().union(*[g.reach_from(t) for _, t in (fe if newer is te else te)]) and True:
                            r_new = set().union(*[g.reach_from(t, avoid={cmp["block"]}) for _, t in newer])
                            ok = ok or s.block not in r_new
            chk.ob("load-rechecks-generation", "%s files.store@%d" % (g.name.split("::")[-1], s.line), ok, "loading an index into its slot must be on the not-newer edge of the generation re-check", s.where(), key="load-rechecks-generation|%s" % g.name)


def marker_freshness_rule(db, chk):
    """reader side: a lookup may replace its snapshot while it loops (after a refresh); every marker it hands to load_pack / load_one_index must
    be read from the snapshot inside that same loop iteration - a marker captured before the loop goes stale when the generation changes and makes
    load_pack refuse packs that are on disk."""
    fs = [f for f in db.by_crate["gix_odb"] if "::dynamic::find::" in f.name and f.kind != "promoted"]
    n = 0
    for f in fs:
        fl = Flow(f)
        for c in f.calls():
            if not c.is_(r"::load_pack$|::load_one_index$") or len(c.args) < 3:
                continue
            loops_ = [l for l in f.loops() if c.block in l["body"]]
            if not loops_:
                continue
            lp_ = max(loops_, key=lambda l: len(l["body"]))     # the outermost retry loop
            marg = c.args[-1]
            # definition sites of the marker value: reads of `<snapshot>.marker`
            reads = []
            seen, work = set(), [marg["p"][0]] if "p" in marg else []
            while work:
                l = work.pop()
                if l in seen:
                    continue
                seen.add(l)
                for bi, si, pl, rv, ln, mc in f.assigns():
                    if pl == [l] and rv[0] == "use" and "p" in rv[1]:
                        if ".marker" in [x for x in rv[1]["p"][1:] if isinstance(x, str)]:
                            reads.append((bi, ln))
                        elif len(rv[1]["p"]) == 1:
                            work.append(rv[1]["p"][0])
            if not reads:
                continue
            n += 1
            stale = [(bi, ln) for bi, ln in reads if bi not in lp_["body"]]
            chk.ob("marker-read-inside-retry-loop", "%s %s@%d" % (f.name.split("::")[-1], c.name.split("::")[-1], c.line), not stale,
                   "the slot-map marker passed here is read from the snapshot before the retry loop (line %s) although the loop can replace the snapshot: after a generation change load_pack rejects every pack of the new snapshot" % [ln for _, ln in stale],
                   c.where(), key="marker-fresh|%s|%s" % (f.name.split("::")[-1], c.name.split("::")[-1]))
    chk.floor("load_pack / load_one_index calls inside retry loops of dynamic::find", n, 2)


def slot_assignment_rules(db, chk):
    """consolidate_with_disk_state assigns new index files to slots by probing round-robin:
      (S1) a slot kept in this pass (pushed to new_slot_map_indices because its file is still on disk) is never a destination: every
           try_set_index_slot call lies behind the `not contained` edge of a membership test on new_slot_map_indices;
      (S2) a slot that was given a new file in this pass is not emptied at the end of it: slot_indices_to_remove is either excluded from the probe
           (membership test before try_set_index_slot) or purged of the slot (retain/remove) on the success path of try_set_index_slot;
      (S3) emptying a slot that non-stable handles may still address changes the generation: an assignment `needs_generation_change = true`
           is control-dependent on slot_indices_to_remove being non-empty."""
    cw = db.one(r"^gix_odb::store_impls::dynamic::load_index::<impl gix_odb::Store>::consolidate_with_disk_state$")
    fl = Flow(cw)
    def named(op, nm):
        return any(r[0] == "var" and r[2] == nm for r in fl.roots(op)) or any(r[0] == "var" and r[2] == nm for r in fl.roots(op, stop_named=False) if len(r) > 2)
    sets = cw.calls_to(r"Store>::try_set_index_slot$")
    chk.floor("consolidate_with_disk_state: try_set_index_slot calls", len(sets), 2)
    kept, rem = cw.locals_named("new_slot_map_indices"), cw.locals_named("slot_indices_to_remove")
    chk.floor("consolidate_with_disk_state: new_slot_map_indices / slot_indices_to_remove", min(len(kept), len(rem)), 1)
    contains = [c for c in cw.calls() if c.is_(r"::contains$") and c.args]
    def member_edges(vec_name):
        out = set()
        for c in contains:
            if named(c.args[0], vec_name):
                out |= fl.result_edges(c)["bad"]        # contains(..) == false
        return out
    not_kept = member_edges("new_slot_map_indices")
    for i, c in enumerate(sets):
        chk.ob("live-slot-never-a-destination", "consolidate_with_disk_state try_set_index_slot #%d" % i, bool(not_kept) and fl.cut_off([c.block], not_kept),
               "the round-robin probe can hand a slot to a new index although that slot was kept in this very pass (its pack is still on disk): the live pack disappears from the slot map and its objects are no longer found",
               c.where(), key="live-slot-destination|%d" % i)
    not_rem = member_edges("slot_indices_to_remove")
    purges = [c for c in cw.calls() if c.is_(r"::(retain|remove|swap_remove|retain_mut)$") and c.args and named(c.args[0], "slot_indices_to_remove")]
    for i, c in enumerate(sets):
        excluded = bool(not_rem) and fl.cut_off([c.block], not_rem)
        good = fl.result_edges(c)["good"]
        purged = False
        if good and purges:
            r = set()
            for (_, t) in good:
                r |= cw.reach_from(t, avoid=[p.block for p in purges])
            # every way from the success edge to the end of the probe loop passes a purge: approximate by `the final removal loop is not reachable without one`
            clears = [bi for bi, si, pl, rv, ln, mc in cw.assigns() if rv[0] == "agg" and rv[1] == "adt" and rv[3] == "None" and "Option" in rv[2]]
            stores = [s.block for s in cw.calls() if s.is_(r"arc_swap::ArcSwapAny::<T, S>::store$")]
            purged = not any(b in r for b in stores if not cw.dominates(b, c.block))
        chk.ob("assigned-slot-is-not-cleared", "consolidate_with_disk_state try_set_index_slot #%d" % i, excluded or purged,
               "a slot whose old pack was deleted can be chosen as destination for a new index and is then emptied by the removal loop of the same pass: the new pack stays invisible (permanently, once the slot list looks unchanged)",
               c.where(), key="assigned-slot-cleared|%d" % i)
    # S3
    flags = cw.locals_named("needs_generation_change")
    empt = [c for c in cw.calls() if c.is_(r"::is_empty$") and c.args and named(c.args[0], "slot_indices_to_remove")]
    nonempty = set()
    for c in empt:
        nonempty |= fl.result_edges(c)["bad"]
    lens = []
    dep = False
    for bi, si, pl, rv, ln, mc in cw.assigns():
        if len(pl) == 1 and pl[0] in flags and rv[0] == "use" and rv[1].get("v") == 1:
            if nonempty and fl.cut_off([bi], nonempty):
                dep = True
    chk.ob("slot-removal-changes-generation", "consolidate_with_disk_state", dep,
           "slots of deleted packs are emptied without a generation change: a handle that still holds the old index asks load_pack for that slot and hits unreachable!(), or - once the slot was refilled - is handed a different pack and returns another object's bytes",
           "%s:%d" % (cw.file, cw.line), key="slot-removal-generation")


def slot_sizing_rule(db, chk):
    """the slot map never grows, and every index file needs its own slot once the multi-pack-index that covers it is gone (git removes it when
    `repack -d` drops one of its packs).  The count that sizes the slot map (Slots::AsNeededByDiskState) must therefore see every .idx file: the
    call of collect_indices_and_mtime_sorted_by_size in Store::at_opts passes `None` as multi-pack-index hash (with Some(hash) that function
    replaces all covered indices by one entry)."""
    f = db.one(r"^gix_odb::store_impls::dynamic::init::<impl gix_odb::Store>::at_opts$")
    fl = Flow(f)
    cs = f.calls_to(r"::collect_indices_and_mtime_sorted_by_size$")
    chk.floor("Store::at_opts: index count for slot sizing", len(cs), 1)
    for c in cs:
        r = fl.roots(c.args[2], stop_named=False)
        none_only = bool(r) and all((x[0] == "const" and isinstance(x[1], str) and x[1].endswith("::None")) for x in r) or ("p" not in c.args[2] and c.args[2].get("variant") == "None")
        vals = sorted({str(x[:2]) for x in r})[:3]
        chk.ob("slot-count-sees-every-index", "at_opts collect_indices@%d" % c.line, none_only,
               "the slot map is sized from a count in which a multi-pack-index stands for all the indices it covers (%s): when git deletes the multi-pack-index each of them needs a slot and refresh fails with InsufficientSlots for good" % ", ".join(vals),
               c.where(), key="slot-sizing|at_opts")
