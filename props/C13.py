"""C13 Alternates — same-base provenance (FLOW), cycle check dominates following (DOM)."""
from gx.flow import Flow

TECHNIQUE = "provenance rule (the base a relative entry is joined onto must be the directory whose alternates file was read) and guard cut-set for the cycle test"
EXPLANATION = ("In gix_odb::alternate::resolve: the site that gives a parsed alternates entry its base (Path::join(base, entry), or realpath_opts(entry, base) on an entry not joined before) must take, as base, the "
               "same binding as the directory whose info/alternates file was read in that iteration; pushing a directory onto the work list is cut "
               "off from entry once the `not yet seen` edge of seen.contains(canonical) is removed, the canonical path tested is the realpath of "
               "the joined path, and the cycle branch builds Error::Cycle. Git's consultation order and quoting are not decided.")


def run(db, chk):
    f = db.one(r"^gix_odb::alternate::resolve$")
    fl = Flow(f)
    joins = f.calls_to(r"std::path::Path::join$")
    reads = f.calls_to(r"std::fs::read$")
    parse = f.calls_to(r"alternate::parse::content$")
    chk.floor("fs::read of the alternates file", len(reads), 1)
    chk.floor("parse::content call", len(parse), 1)
    # the directory the file was read from
    read_bases = set()
    for r in reads:
        for j in joins:
            if fl.derives_from_call(r.args[0], r"Path::join$"):
                pass
        read_bases |= {x[1] for x in fl.roots(r.args[0]) if x[0] in ("var", "arg")}
    # sites that give a parsed (possibly relative) entry its base: Path::join(base, entry), or realpath_opts(entry, base) on an entry not joined before
    sites = [(j, j.args[0], "join") for j in joins if fl.derives_from_call(j.args[1], r"alternate::parse::content$")]
    for c in f.calls_to(r"realpath_opts$"):
        ejb = {j.block for j, _, _ in sites}
        via = {r[2] for r in fl.roots(c.args[0], stop_named=False, stop_calls=r"Path::join$", sites=True) if r[0] == "call" and r[1].endswith("Path::join")}
        if fl.derives_from_call(c.args[0], r"alternate::parse::content$") and not (via & ejb):
            sites.append((c, c.args[1], "realpath_opts"))
    chk.floor("sites resolving a parsed entry against a base directory", len(sites), 1)
    for j, base_op, how in sites:
        base = {x[1] for x in fl.roots(base_op) if x[0] in ("var", "arg")}
        names = sorted((f.local_name(b) or "arg%d" % b) for b in base)
        rnames = sorted((f.local_name(b) or "arg%d" % b) for b in read_bases)
        chk.ob("relative-entry-joined-on-its-own-directory", "resolve: %s(%s, entry)" % (how, ",".join(names)), bool(base) and base <= read_bases,
               "entries are resolved against %s but the alternates file was read from %s" % (names, rnames), j.where(), key="same-base|resolve")
        chk.sample({"site": how, "base": names, "read_from": rnames})
    # cycle detection
    contains = [c for c in f.calls() if c.is_(r"::contains$")]
    pushes = [c for c in f.calls_to(r"Vec::<T, A>::push$|Vec::<T>::push$") if any(x[0] == "var" and f.local_name(x[1]) == "dirs" for x in fl.roots(c.args[0]))]
    chk.floor("seen.contains", len(contains), 1)
    chk.floor("dirs.push", len(pushes), 1)
    notseen = set()
    for c in contains:
        e = fl.result_edges(c)
        notseen |= e["bad"]     # contains == false
        ok = fl.derives_from_call(c.args[1], r"realpath_opts$")
        chk.ob("cycle-test-on-canonical-path", "resolve", ok, "seen.contains must test the realpath of the joined path", c.where(), key="cycle-canonical")
    chk.ob("cycle-test-dominates-follow", "resolve", bool(notseen) and fl.cut_off([p.block for p in pushes], notseen), "a directory can be queued without passing the seen-check", pushes[0].where() if pushes else "", key="cycle-dominates")
    cyc = [bi for bi, si, pl, rv, ln, mc in f.assigns() if rv[0] == "agg" and rv[3] == "Cycle"]
    chk.ob("cycle-reported", "resolve", bool(cyc), "Error::Cycle must be constructed", "%s:%d" % (f.file, f.line), key="cycle-reported")
