"""C13 Alternates — same-base provenance (FLOW), cycle check dominates following (DOM)."""
import re
from gx.flow import Flow

TECHNIQUE = "provenance rule (the base a relative entry is joined onto must be the directory whose alternates file was read) and guard cut-set for the cycle test"
EXPLANATION = ("In gix_odb::alternate::resolve: the site that gives a parsed alternates entry its base (Path::join(base, entry), or realpath_opts(entry, base) on an entry not joined before) must take, as base, the "
               "same binding as the directory whose info/alternates file was read in that iteration; pushing a directory onto the work list is cut "
               "off from entry once the `not yet seen` edge of seen.contains(canonical) is removed, the canonical path tested is the realpath of "
               "the joined path, and the cycle branch builds Error::Cycle. Siblings keep file order (no forward push onto a popped work list), Error::Cycle only behind a membership test on a collection that shrinks (the ancestor chain), "
               "empty unquoted entries are skipped, the '#' test is applied to the raw line. gix_path::realpath_opts tests every normal component for being a symlink before consuming it. Quoting fallbacks and git's depth limit are not decided.")


def run(db, chk):
    order_and_dedup_rules(db, chk)
    realpath_component_rule(db, chk)
    f = db.one(r"^gix_odb::alternate::resolve$")
    fl = Flow(f)
    joins = f.calls_to(r"std::path::Path::join$")
    reads = f.calls_to(r"std::fs::read$")
    parse = f.calls_to(r"alternate::parse::content$")
    # helper form: a nested function that reads `<its parameter>/info/alternates` and returns the parsed entries
    helpers = []
    for g in db.by_crate["gix_odb"]:
        if g.name.startswith("gix_odb::alternate::resolve::") and g.kind not in ("promoted", "closure"):
            gfl = Flow(g)
            rd = g.calls_to(r"std::fs::read$")
            if rd and g.calls_to(r"alternate::parse::content$") and all(any(x[0] == "arg" and x[1] == 1 for x in gfl.roots(r_.args[0], stop_named=False)) for r_ in rd):
                helpers.append(g)
    chk.floor("fs::read of the alternates file (inline or in a helper taking the directory)", len(reads) + len(helpers), 1)
    chk.floor("parse::content call", len(parse) + len(helpers), 1)
    if helpers and not reads:
        hre = "|".join(re.escape(h.name) + "$" for h in helpers)
        # every record that pairs entries with a directory is built from ONE binding: entries = helper(X), dir = X
        recs = [(bi, rv, ln) for bi, si, pl, rv, ln, mc in f.assigns() if rv[0] == "agg" and rv[1] == "adt" and any(fl.derives_from_call(op, hre) for op in rv[4] if "p" in op)]
        chk.floor("records pairing parsed entries with their directory", len(recs), 1)
        for bi, rv, ln in recs:
            ent = [op for op in rv[4] if "p" in op and fl.derives_from_call(op, hre)]
            src = set()
            for c in f.calls():
                if c.is_(hre) and any(r[0] == "call" and len(r) > 2 and r[2] == c.block for op in ent for r in fl.roots(op, stop_named=False, sites=True)):
                    src |= {x[1] for x in fl.roots(c.args[0]) if x[0] in ("var", "arg")}
            others = set()
            for op in rv[4]:
                if "p" in op and op not in ent:
                    others |= {x[1] for x in fl.roots(op) if x[0] in ("var", "arg")}
            names = sorted((f.local_name(b) or "arg%d" % b) for b in src)
            chk.ob("relative-entry-joined-on-its-own-directory", "resolve: record@%d pairs entries of %s with that directory" % (ln, ",".join(names)), bool(src) and bool(src & others),
                   "the entries read from %s are stored next to a different directory" % names, "%s:%d" % (f.file, ln), key="same-base|record")
        # the join takes base and entry from the same record
        ejoins = [j_ for j_ in joins if any(r[0] == "call" and r[1].endswith("::next") for r in fl.roots(j_.args[1], stop_named=False))]
        chk.floor("sites resolving a parsed entry against a base directory", len(ejoins), 1)
        for j_ in ejoins:
            def rec_sites(op):
                return {(r[1], r[2]) for r in fl.roots(op, stop_named=False, sites=True) if r[0] == "call" and re.search(r"::(last_mut|last|first|first_mut|get|get_mut|pop|next|index|index_mut)$", r[1]) and not r[1].endswith("Iterator::next")} - \
                       {(r[1], r[2]) for r in fl.roots(op, stop_named=False, sites=True) if r[0] == "call" and re.search(r"IntoIter<.*>::next$|Iterator>::next$", r[1])}
            b_, e_ = rec_sites(j_.args[0]), rec_sites(j_.args[1])
            chk.ob("relative-entry-joined-on-its-own-directory", "resolve: join(record.dir, record.entries.next())", bool(b_ & e_),
                   "base and entry of the join come from different records: %s vs %s" % (sorted(b_), sorted(e_)), j_.where(), key="same-base|resolve")
    else:
        read_bases = set()
        for r in reads:
            read_bases |= {x[1] for x in fl.roots(r.args[0]) if x[0] in ("var", "arg")}
        # sites that give a parsed (possibly relative) entry its base: Path::join(base, entry), or realpath_opts(entry, base) on an entry not joined before
        sites = [(j, j.args[0], "join") for j in joins if fl.derives_from_call(j.args[1], r"alternate::parse::content$")]
        for c in f.calls_to(r"realpath_opts$"):
            ejb = {j.block for j, _, _ in sites}
            via = {r[2] for r in fl.roots(c.args[0], stop_named=False, stop_calls=r"Path::join$", sites=True) if r[0] == "call" and r[1].endswith("Path::join")}
            if fl.derives_from_call(c.args[0], r"alternate::parse::content$") and not (via & ejb):
                sites.append((c, c.args[1], "realpath_opts"))
        chk.floor("sites resolving a parsed entry against a base directory", len(sites), 1)
        for j, base_op, how in sites:
            base = {x[1] for x in fl.roots(base_op) if x[0] in ("var", "arg")}
            names = sorted((f.local_name(b) or "arg%d" % b) for b in base)
            rnames = sorted((f.local_name(b) or "arg%d" % b) for b in read_bases)
            chk.ob("relative-entry-joined-on-its-own-directory", "resolve: %s(%s, entry)" % (how, ",".join(names)), bool(base) and base <= read_bases,
                   "entries are resolved against %s but the alternates file was read from %s" % (names, rnames), j.where(), key="same-base|resolve")
            chk.sample({"site": how, "base": names, "read_from": rnames})
    # cycle detection
    contains = [c for c in f.calls() if c.is_(r"::contains$")]
    popped = {x[1] for c in f.calls_to(r"Vec::<T, A>::pop$|Vec::<T>::pop$") for x in fl.roots(c.args[0]) if x[0] == "var"}
    pushes = [c for c in f.calls_to(r"Vec::<T, A>::push$|Vec::<T>::push$") if any(x[0] == "var" and x[1] in popped for x in fl.roots(c.args[0]))]
    chk.floor("seen.contains", len(contains), 1)
    chk.floor("pushes onto the work list (the vector that is popped)", len(pushes), 1)
    notseen = set()
    for c in contains:
        e = fl.result_edges(c)
        notseen |= e["bad"]     # contains == false
        ok = fl.derives_from_call(c.args[1], r"realpath_opts$")
        chk.ob("cycle-test-on-canonical-path", "resolve", ok, "seen.contains must test the realpath of the joined path", c.where(), key="cycle-canonical")
    chk.ob("cycle-test-dominates-follow", "resolve", bool(notseen) and fl.cut_off([p.block for p in pushes], notseen), "a directory can be queued without passing the seen-check", pushes[0].where() if pushes else "", key="cycle-dominates")
    cyc = [bi for bi, si, pl, rv, ln, mc in f.assigns() if rv[0] == "agg" and rv[3] == "Cycle"]
    chk.ob("cycle-reported", "resolve", bool(cyc), "Error::Cycle must be constructed", "%s:%d" % (f.file, f.line), key="cycle-reported")


def order_and_dedup_rules(db, chk):
    """further structural clauses of `the same object directories git consults, in git's order`:
      (O) siblings keep the order of the alternates file: entries of one file are not pushed, in a forward loop, onto a worklist that is consumed
          with pop() (that reverses them) - unless the loop iterates the entries in reverse;
      (D) a directory reachable twice without a cycle is consulted once and is not an error: Error::Cycle is only built behind a membership test on
          a collection that also shrinks in this function (the chain of ancestors), not on a grow-only set of everything seen;
      (E) an entry that unquotes to the empty path is skipped (git does), i.e. the parser tests emptiness of a value that went through the unquoting;
      (H) only a raw leading '#' makes a comment: the '#' test is applied to the raw line, never to an unquoted value (`"#pool"` is a directory)."""
    import re
    f = db.one(r"^gix_odb::alternate::resolve$")
    fl = Flow(f)
    fam = [f] + [g for g in db.closures_of(f) if g.kind == "closure"] + [g for g in db.by_crate["gix_odb"] if g.name.startswith("gix_odb::alternate::resolve::") and g.kind not in ("promoted", "closure")]
    # (O)
    pops = {}
    for c in f.calls_to(r"Vec::<T, A>::pop$|Vec::<T>::pop$|VecDeque::<T, A>::pop_back$"):
        for r in fl.roots(c.args[0]):
            if r[0] == "var":
                pops[r[1]] = c
    bad_o = []
    n_loops = 0
    for l in f.loops():
        nexts = [c for c in f.calls() if c.block in l["body"] and c.is_(r"Iterator>?::next$|::next$") and any(m.startswith("d:ForLoop") for m in c.macros)
                 and fl.derives_from_call(c.args[0], r"alternate::parse::content$")]
        if not nexts or not any(c.block == l["header"] or f.dominates(c.block, b_) for c in nexts for b_ in [l["header"]]) and False:
            continue
        if not nexts:
            continue
        n_loops += 1
        reversed_ = any(fl.derives_from_call(c.args[0], r"Iterator>?::rev$|::rev$") for c in nexts)
        for c in f.calls_to(r"Vec::<T, A>::push$|Vec::<T>::push$"):
            if c.block in l["body"]:
                for r in fl.roots(c.args[0]):
                    if r[0] == "var" and r[1] in pops and not reversed_:
                        bad_o.append((c, f.local_name(r[1])))
    chk.ob("siblings-keep-file-order", "alternate::resolve", not bad_o,
           "the entries of one alternates file are pushed in file order onto `%s`, which is consumed with pop(): siblings are consulted in reverse order (git: a, a1, b, c; here: c, b, a, a1)" % (bad_o[0][1] if bad_o else ""),
           bad_o[0][0].where() if bad_o else "", key="alternates-order|resolve")
    # (D)
    cyc = [(g, bi) for g in fam for bi, si, pl, rv, ln, mc in g.assigns() if rv[0] == "agg" and rv[3] == "Cycle"]
    chk.floor("alternate::resolve: Error::Cycle construction", len(cyc), 1)
    for g, cb in cyc:
        gfl = Flow(g)
        tests = [c for c in g.calls() if c.is_(r"::contains$|Iterator>?::any$|::any$") and c.args]
        ok = False
        for t in tests:
            e = gfl.result_edges(t)
            if not e["good"] or not gfl.cut_off([cb], e["good"]):
                continue
            vars_ = {r[1] for r in gfl.roots(t.args[0]) if r[0] == "var"} | {r[1] for r in gfl.roots(t.args[0], stop_named=False) if r[0] == "var"}
            shrinks = [c for c in g.calls() if c.is_(r"::(pop|truncate|remove|pop_back)$") and c.args and ({r[1] for r in gfl.roots(c.args[0]) if r[0] == "var"} & vars_)]
            if shrinks:
                ok = True
        chk.ob("cycle-means-ancestor", "alternate::resolve", ok,
               "Error::Cycle is raised for any directory seen before (the tested collection only grows): a directory reachable twice without a cycle (top -> x, y; x -> d; y -> d) makes the whole object database fail to open, git consults it once",
               "%s:%d" % (g.file, g.line), key="alternates-diamond|resolve")
    # (E) and (H)
    pc = db.one(r"^gix_odb::alternate::parse::content$")
    pfl = Flow(pc)
    empt = [c for c in pc.calls_to(r"::is_empty$") if c.args and pfl.derives_from_call(c.args[0], r"ansi_c::undo$")]
    chk.ob("empty-unquoted-entry-skipped", "alternate::parse::content", bool(empt), "no emptiness test on an unquoted entry: an empty quoted entry yields the directory itself and a bogus cycle error", "%s:%d" % (pc.file, pc.line), key="alternates-empty|content")
    hashes = [c for c in pc.calls_to(r"::starts_with$") if len(c.args) > 1 and any(r[0] == "const" and r[1] == b"#" for r in pfl.roots(c.args[1], stop_named=False)) or
              (len(c.args) > 1 and c.args[1].get("bytes") == "23")]
    chk.floor("alternate::parse::content: comment test", len(hashes), 1)
    for c in hashes:
        chk.ob("comment-test-on-raw-line", "alternate::parse::content starts_with('#')@%d" % c.line, not pfl.derives_from_call(c.args[0], r"ansi_c::undo$"),
               "the '#' comment test is applied to an unquoted value: a quoted entry #pool is a directory for git, here it is dropped as a comment", c.where(), key="alternates-comment|content")


def realpath_component_rule(db, chk):
    """alternates are identified (already consulted? cycle?) by gix_path::realpath_opts of their directory.  That walk is only the kernel's walk
    if every normal component is looked at before anything is done with it: `link/..` is the parent of the link's TARGET, not of the link.  In
    realpath_opts no path leads from the `Normal` arm of the component match back to the loop header without passing `is_symlink()` (must-pass),
    and the loop has such an arm."""
    f = db.one(r"^gix_path::realpath::function::realpath_opts$")
    arms = []
    for bi, si, pl, rv, ln, mc in f.assigns():
        if rv[0] == "discr" and isinstance(rv[2], dict) and "Normal" in rv[2].values() and "ParentDir" in rv[2].values():
            t = f.term(bi)
            if t[0] == "switch":
                d = {v: k for k, v in rv[2].items()}
                tgt = next((x for vv, x in t[2] if str(vv) == d["Normal"]), t[3])
                arms.append((bi, tgt, ln))
    checks = f.calls_to(r"Path::is_symlink$|fs::symlink_metadata$|Path::symlink_metadata$|fs::read_link$|Path::read_link$")
    chk.floor("realpath_opts: match on the component kind / symlink test", min(len(arms), len(checks)), 1)
    for sw, tgt, ln in arms:
        lps = [l for l in f.loops() if sw in l["body"]]
        if not lps:
            chk.anchor_lost("realpath_opts: loop around the component match")
            continue
        hdr = min(lps, key=lambda l: len(l["body"]))["header"]
        r = f.reach_from(tgt, avoid={c.block for c in checks})
        chk.ob("every-component-checked-for-symlink", "realpath_opts Normal arm@%d" % ln, hdr not in r and tgt != hdr,
               "a normal path component can be consumed (or dropped together with a following `..`) without a symlink test: `link/..` is resolved textually, the directory's identity differs from the directory that is opened, and alternates are skipped or reported as cycles",
               "%s:%d" % (f.file, ln), key="realpath-component|realpath_opts")
