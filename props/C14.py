"""C14 Commit-graph — format constants vs git's commit-graph-format (TAB), use contexts, edge decoding tables."""
import re
from gx import tab
from gx.flow import Flow

TECHNIQUE = "format-constant table vs spec, use-site operator contexts, arithmetic signature of the commit-data decoder"
EXPLANATION = ("For gix-commitgraph: signature, chunk ids, fan/entry sizes, NO_PARENT, extended-edge masks and generation limits are "
               "const-evaluated and compared with git's commit-graph-format; NO_PARENT is tested by equality and the edge masks by `&` in the edge "
               "decoders, which build None / ExtraEdgeIndex / GraphPosition resp. Last / Internal on the right edges; the commit-data decoder shifts the "
               "generation by 2 and masks the 34-bit timestamp with 0x3ffffffff; every chunk id is looked up by the reader. Equality of the decoded "
               "data with the underlying commits is not decided. The fan-out bisection of File::lookup_inner starts its lower bound at the constant 0 for first byte 0 (and no fan read at byte-1 is unguarded in the crate). A chain-wide graph::Position is related to one file's commit count only inside Graph's translation (unit rule with positive control).")
P = "gix_commitgraph::"
SPEC_INT = {"file::FAN_LEN": 256, "file::HEADER_LEN": 8, "file::COMMIT_DATA_ENTRY_SIZE_SANS_HASH": 16, "file::NO_PARENT": 0x70000000,
            "file::EXTENDED_EDGES_MASK": 0x80000000, "file::LAST_EXTENDED_EDGE_MASK": 0x80000000,
            "GENERATION_NUMBER_INFINITY": 0xffffffff, "GENERATION_NUMBER_MAX": 0x3fffffff, "MAX_COMMITS": 0x6fffffff}
SPEC_BYTES = {"file::SIGNATURE": b"CGPH", "file::OID_FAN_CHUNK_ID": b"OIDF", "file::OID_LOOKUP_CHUNK_ID": b"OIDL", "file::COMMIT_DATA_CHUNK_ID": b"CDAT",
              "file::EXTENDED_EDGES_LIST_CHUNK_ID": b"EDGE", "file::BASE_GRAPHS_LIST_CHUNK_ID": b"BASE"}


def run(db, chk):
    chain_offset_rule(db, chk)
    position_units_rule(db, chk)
    for n, want in SPEC_INT.items():
        c = db.const(P + n)
        chk.ob("spec-constant", n, c.get("v") == want, "is %r, format says %r" % (c.get("v"), want), "%s:%d" % (c["file"], c["line"]), key="spec-constant|" + n)
    for n, want in SPEC_BYTES.items():
        c = db.const(P + n)
        got = bytes.fromhex(c.get("bytes", ""))
        chk.ob("spec-constant", n, got == want, "is %r, format says %r" % (got, want), "%s:%d" % (c["file"], c["line"]), key="spec-constant|" + n)
    uses = db.const_uses(["gix_commitgraph"])

    def ctx(cn, frx):
        return {c[1] for f, bi, c in uses.get(P + cn, []) if re.search(frx, f.name)}

    chk.ob("constant-used-in-context", "NO_PARENT == in ParentEdge::from_raw", "Eq" in ctx("file::NO_PARENT", r"ParentEdge::from_raw$"), "", key="ctx|NO_PARENT")
    chk.ob("constant-used-in-context", "EXTENDED_EDGES_MASK & in ParentEdge::from_raw", "BitAnd" in ctx("file::EXTENDED_EDGES_MASK", r"ParentEdge::from_raw$"), "", key="ctx|EXTENDED_EDGES_MASK")
    chk.ob("constant-used-in-context", "LAST_EXTENDED_EDGE_MASK & in ExtraEdge::from_raw", "BitAnd" in ctx("file::LAST_EXTENDED_EDGE_MASK", r"ExtraEdge::from_raw$"), "", key="ctx|LAST_EXTENDED_EDGE_MASK")
    for cid in ("OID_FAN", "OID_LOOKUP", "COMMIT_DATA", "EXTENDED_EDGES_LIST", "BASE_GRAPHS_LIST"):
        us = [c for f, bi, c in uses.get(P + "file::%s_CHUNK_ID" % cid, []) if re.search(r"file::init::<impl gix_commitgraph::File>::new$", f.name) and c[0] == "call" and re.search(r"offset_by_id$", c[1])]
        chk.ob("chunk-id-looked-up", cid, bool(us), "File::new must look the chunk up by this id", key="chunk-id-looked-up|" + cid)
    # edge decoder tables: which variant is built on which side of the tests
    pe = db.one(r"^gix_commitgraph::file::commit::ParentEdge::from_raw$")
    built = {rv[3] for bi, si, pl, rv, ln, mc in pe.assigns() if rv[0] == "agg" and rv[2].endswith("ParentEdge")}
    chk.ob("edge-variants", "ParentEdge::from_raw", built == {"None", "ExtraEdgeIndex", "GraphPosition"}, "builds %s" % built, "%s:%d" % (pe.file, pe.line), key="edge-variants|ParentEdge")
    # None only on the == NO_PARENT true edge; ExtraEdgeIndex only on mask != 0
    from gx.flow import comparisons, bool_switch_edges
    for cmp in comparisons(pe):
        if cmp["op"] == "Eq" and any(cmp[s].get("def", "").endswith("NO_PARENT") for s in ("a", "b")):
            te, fe = bool_switch_edges(pe, cmp["block"], cmp["res"])
            none_blocks = {bi for bi, si, pl, rv, ln, mc in pe.assigns() if rv[0] == "agg" and rv[3] == "None" and rv[2].endswith("ParentEdge")}
            other_blocks = {bi for bi, si, pl, rv, ln, mc in pe.assigns() if rv[0] == "agg" and rv[3] in ("ExtraEdgeIndex", "GraphPosition")}
            r_true = set().union(*[pe.reach_from(t) for _, t in te])
            r_false = set().union(*[pe.reach_from(t) for _, t in fe])
            chk.ob("edge-table", "NO_PARENT -> None only", none_blocks <= r_true and not (none_blocks & r_false) and not (other_blocks & r_true - r_false),
                   "", "%s:%d" % (pe.file, cmp["line"]), key="edge-table|NO_PARENT")
    cn = db.one(r"^gix_commitgraph::file::commit::<impl gix_commitgraph::file::commit::Commit<'a>>::new$|^gix_commitgraph::file::commit::Commit::<'a>::new$")
    sig = tab.arith_signature(cn, ("Shr", "BitAnd", "Add"))
    chk.ob("format-constant", "generation = raw >> 2", ("Shr", 2, "r") in sig, str(dict(sig)), "%s:%d" % (cn.file, cn.line), key="format-constant|generation-shift")
    chk.ob("format-constant", "timestamp mask 0x3ffffffff", ("BitAnd", 0x3ffffffff, "") in sig, str(dict(sig)), "%s:%d" % (cn.file, cn.line), key="format-constant|timestamp-mask")
    offs = {k[1] for k in sig if k[0] == "Add"}
    chk.ob("format-constant", "field offsets hash+4, hash+8", {4, 8} <= offs, "offsets %s" % sorted(offs), "%s:%d" % (cn.file, cn.line), key="format-constant|field-offsets")
    # fan-out bisection bounds (shared rule with C09)
    from props import _fan
    _fan.fan_bounds(chk, db.one(r"^gix_commitgraph::file::access::<impl gix_commitgraph::File>::lookup_inner$"), "commit-graph File::lookup_inner")
    _fan.fan_index_rule(db, chk, ["gix_commitgraph"], 2)


def chain_offset_rule(db, chk):
    """graph position of a commit found in file k of a split chain = its position in that file + the commit counts of ALL earlier files: the offset
    that Graph::lookup_by_id adds to the file position is loop-carried and every assignment to it inside the loop ADDS to its previous value."""
    from gx.flow import Flow
    f = db.one(r"^gix_commitgraph::access::<impl gix_commitgraph::Graph>::lookup_by_id$")
    fl = Flow(f)
    loops_ = f.loops()
    chk.floor("Graph::lookup_by_id: loop over the chain files", len(loops_), 1)
    body = set()
    for l in loops_:
        body |= set(l["body"])
    # the offset: an operand of an Add whose result flows into the Position that is returned, defined outside the loop as well
    cands = set()
    for bi, si, pl, rv, ln, mc in f.assigns():
        if rv[0] == "bin" and rv[1].startswith("Add"):
            for op in (rv[2], rv[3]):
                if "p" in op and len(op["p"]) == 1:
                    l0 = op["p"][0]
                    # follow plain copies
                    for _ in range(3):
                        ds = [(b2, r2) for b2, s2, p2, r2, l2, m2 in f.assigns() if p2 == [l0]]
                        if len(ds) == 1 and ds[0][1][0] == "use" and "p" in ds[0][1][1] and len(ds[0][1][1]["p"]) == 1:
                            l0 = ds[0][1][1]["p"][0]
                        else:
                            break
                    defs = [(b2, r2) for b2, s2, p2, r2, l2, m2 in f.assigns() if p2 == [l0]] + [(c.block, ("call",)) for c in f.calls() if c.dest == [l0]]
                    if any(b2 not in body for b2, r2 in defs) and any(b2 in body for b2, r2 in defs) and f.local_name(l0):
                        cands.add(l0)
    chk.floor("Graph::lookup_by_id: loop-carried offset added to the file position", len(cands), 1)
    for l0 in cands:
        bad = []
        for bi, si, pl, rv, ln, mc in f.assigns():
            if pl != [l0] or bi not in body:
                continue
            # accept `l0 = (l0 + x).0` shapes: the value derives from an Add that has l0 as operand
            ok = False
            seen, work = set(), [rv]
            while work:
                r = work.pop()
                if r[0] == "bin" and r[1].startswith("Add") and any("p" in o and o["p"][0] == l0 for o in (r[2], r[3])):
                    ok = True
                if r[0] == "use" and "p" in r[1]:
                    src = r[1]["p"][0]
                    if src not in seen:
                        seen.add(src)
                        work += [r2 for b2, s2, p2, r2, l2, m2 in f.assigns() if p2 == [src]]
            if not ok:
                bad.append(ln)
        bad += [c.line for c in f.calls() if c.dest == [l0] and c.block in body]
        chk.ob("chain-offset-accumulates", "Graph::lookup_by_id offset `%s`" % f.local_name(l0), not bad,
               "the offset is overwritten instead of accumulated (line %s): ids found in the third or a later file of a split chain get the graph position of a different commit" % bad,
               "%s:%d" % (f.file, bad[0] if bad else f.line), key="chain-offset|lookup_by_id")


def position_units_rule(db, chk):
    """two kinds of position exist: gix_commitgraph::Position counts over the whole chain, file::Position within one file.  Parent positions stored
    in a file (also in the extra-edge list) are chain-wide.  The only place that may relate a chain-wide position to the commit count of ONE file
    is the translation in `impl Graph` (lookup_by_pos / lookup_by_id, which subtract the counts of the files below).  Anywhere else a comparison
    or subtraction between `graph::Position.0` and File::num_commits() is a unit error that only shows with split chains.
    Zero-expected rule; positive control: the translation in Graph::lookup_by_pos must be recognised."""
    from gx.flow import comparisons

    def tags(f, fl, op):
        out = set()
        if "p" not in op:
            return out
        for r in fl.roots(op, stop_named=False):
            if r[0] == "call" and r[1].endswith("::num_commits") and "Graph" not in r[1]:
                out.add("count")
            if r[0] in ("arg", "var"):
                proj = r[2] if r[0] == "arg" else r[3]
                ty = f.locals[r[1]]
                if ".0" in proj and "gix_commitgraph::Position" in ty:
                    out.add("gpos")
        return out
    ctl = 0
    n = 0
    for f in db.by_crate["gix_commitgraph"]:
        if f.kind == "promoted":
            continue
        fl = Flow(f)
        pairs = [(cm["a"], cm["b"], "comparison", cm.get("line", f.line)) for cm in comparisons(f)]
        for bi, si, pl, rv, ln, mc in f.assigns():
            if rv[0] == "bin" and rv[1].replace("WithOverflow", "").replace("Unchecked", "") in ("Sub", "Add"):
                pairs.append((rv[2], rv[3], rv[1], ln))
        for c in f.calls():
            if c.is_(r"::checked_sub$|::checked_add$|::saturating_sub$|::wrapping_sub$|cmp::PartialOrd>?::(lt|le|gt|ge)$|cmp::Ord>?::cmp$") and len(c.args) == 2:
                pairs.append((c.args[0], c.args[1], c.name.split("::")[-1], c.line))
        for a, b, what, ln in pairs:
            ta, tb = tags(f, fl, a), tags(f, fl, b)
            if not (("gpos" in ta and "count" in tb) or ("gpos" in tb and "count" in ta)):
                continue
            n += 1
            allowed = f.name.startswith("gix_commitgraph::access::<impl gix_commitgraph::Graph>::")
            if allowed:
                ctl += 1
                chk.ob("chain-position-vs-file-count", "%s %s@%s (the translation)" % (f.name.split("::")[-1], what, ln), True)
            else:
                chk.ob("chain-position-vs-file-count", "%s %s@%s" % (f.name.split("gix_commitgraph::")[-1], what, ln), False,
                       "a chain-wide graph::Position is related to the commit count of a single file outside Graph's translation: wrong for every file above the base of a split chain",
                       "%s:%s" % (f.file, ln), key="position-units|%s" % f.name.split("gix_commitgraph::")[-1])
    chk.floor("control: Graph translates chain positions with per-file counts", ctl, 1)
