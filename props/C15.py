"""C15 Reference name validation — sanitizing never fails and never panics (UNW/URC/LP on gix-validate + cut-set on the mode)."""
import re
from gx import unw, loops, urc
from gx.flow import Flow

TECHNIQUE = "mode cut-set (no error construction is reachable unless the output buffer is absent, i.e. validation mode), index-after-shrink and loop-progress rules over gix-validate, call-graph check that the sanitizing entry points use Mode::Sanitize"
EXPLANATION = ("gix_validate::tag::name_inner builds its output only in Mode::Sanitize (`out` is Some). The check requires that every construction of an error value in "
               "name_inner is cut off from entry once the `out is None` edges (discriminant switches on views of `out`, is_none() true edges, is_some() false edges) are "
               "removed, so sanitizing cannot return an error; that indexing [0]/[len-1] of the output after the trimming loops is preceded by an emptiness test; that all "
               "loops of gix-validate make progress; that name_partial_or_sanitize reaches name_inner with Mode::Sanitize and unwraps only what that mode guarantees. "
               "That the accepted set equals `git check-ref-format` is a differential value property and is not decided.")


def run(db, chk):
    f = db.one(r"^gix_validate::tag::name_inner$")
    fl = Flow(f)
    errs = [bi for bi, si, pl, rv, ln, mc in f.assigns() if rv[0] == "agg" and rv[1] == "adt" and rv[2] == "core::result::Result" and rv[3] == "Err"]
    chk.floor("error constructions in name_inner", len(errs), 8)
    out_vars = set(f.locals_named("out"))
    none_edges = set()
    nsel = 0
    for b in f.reachable_blocks():
        sv = f.switch_variants(b)
        if sv:
            vs = unw._discr_vars(fl, sv["place"])
            if vs & out_vars:
                nsel += 1
                for t, names in sv["edges"].items():
                    if "None" in names:
                        none_edges.add((b, t))
    for c in f.calls():
        if c.is_(r"Option::<T>::(is_none|is_some)$") and (fl.root_vars(c.args[0]) & out_vars):
            nsel += 1
            e = fl.result_edges(c)
            none_edges |= e["good"] if c.name.endswith("is_none") else e["bad"]
    chk.floor("tests of the output buffer's presence", nsel, 8)
    reach = f.reach_from(0, avoid_edges=none_edges)
    bad = [b for b in errs if b in reach]
    lines = sorted({ln for bi, si, pl, rv, ln, mc in f.assigns() if bi in bad and rv[0] == "agg" and rv[3] == "Err"})
    chk.ob("sanitize-never-errs", "name_inner: no Err reachable when the output buffer exists", not bad, "Err constructed at line(s) %s is reachable in Mode::Sanitize" % lines, "%s:%d" % (f.file, lines[0] if lines else f.line), key="sanitize-never-errs")
    # out is Some exactly in Sanitize mode
    then = [c for c in f.calls() if c.is_(r"bool>::then$|::then$")]
    okmode = False
    for c in then:
        l = c.args[0]["p"][0] if "p" in c.args[0] else None
        for b in f.reachable_blocks():
            sv = f.switch_variants(b)
            if sv and any(r[0] == "arg" and r[1] == 2 for r in fl.roots(sv["place"], stop_named=False)):
                tg = set(sv["edges"])
                if any(bi in tg and pl == [l] for bi, si, pl, rv, ln, mc in f.assigns()):
                    okmode = True
    chk.ob("output-buffer-iff-sanitize", "name_inner", okmode, "`out` must be created by `matches!(mode, Sanitize).then(..)`", "%s:%d" % (f.file, f.line), key="output-buffer-iff-sanitize")
    fns = [g for g in db.by_crate["gix_validate"] if g.kind != "promoted"]
    chk.floor("gix_validate functions", len(fns), 20)
    for g in fns:
        for x in unw.index_after_shrink(g):
            chk.ob("index-after-shrink", g.name, False, x["what"], "%s:%d" % (g.file, x["line"]), key="shrink|%s" % g.name)
        for l, r in loops.check_fn(g):
            if not r["ok"]:
                chk.ob("loop-progress", "%s loop@%s" % (g.name, r.get("line")), False, r.get("reason", ""), "%s:%s" % (g.file, r.get("line")), key="loop-progress|%s" % g.name)
    chk.ob("index-after-shrink", "gix_validate (%d functions)" % len(fns), True)
    # sanitizing entry point
    s = db.one(r"^gix_validate::reference::name_partial_or_sanitize$")
    reach_cg = db.reachable([s.key], stop=lambda n: not n.startswith("gix_validate::"))
    chk.ob("sanitize-entry-reaches-name_inner", "name_partial_or_sanitize", f.key in reach_cg, "", "%s:%d" % (s.file, s.line), key="sanitize-entry")
    modes = set()
    for n in reach_cg:
        g = db.fns.get(n)
        if g is None or not n.startswith("gix_validate::"):
            continue
        for bi, si, pl, rv, ln, mc in g.assigns():
            if rv[0] == "agg" and rv[2].endswith("gix_validate::reference::Mode") or (rv[0] == "agg" and rv[2].endswith("tag::Mode")):
                modes.add(rv[3])
    chk.ob("sanitize-entry-uses-sanitize-mode", "name_partial_or_sanitize", "Sanitize" in modes, "modes constructed on the path: %s" % sorted(modes), "%s:%d" % (s.file, s.line), key="sanitize-mode")
