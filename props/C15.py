"""C15 Reference name validation — sanitizing never fails and never panics (UNW/URC/LP on gix-validate + cut-set on the mode)."""
import re
from gx import unw, loops, urc
from gx.flow import Flow

TECHNIQUE = "mode cut-set (no error construction is reachable unless the output buffer is absent, i.e. validation mode), index-after-shrink and loop-progress rules over gix-validate, call-graph check that the sanitizing entry points use Mode::Sanitize"
EXPLANATION = ("gix_validate::tag::name_inner builds its output only in Mode::Sanitize (`out` is Some). The check requires that every construction of an error value in "
               "name_inner is cut off from entry once the `out is None` edges (discriminant switches on views of `out`, is_none() true edges, is_some() false edges) are "
               "removed, so sanitizing cannot return an error; that indexing [0]/[len-1] of the output after the trimming loops is preceded by an emptiness test; that all "
               "loops of gix-validate make progress; that name_partial_or_sanitize reaches name_inner with Mode::Sanitize and unwraps only what that mode guarantees. "
               "That the accepted set equals `git check-ref-format` is a differential value property and is not decided. No comparison of a length with a constant decides whether a `.lock` component is refused.")


def run(db, chk):
    lock_suffix_rule(db, chk)
    one_level_table(db, chk)
    sole_at_rule(db, chk)
    f = db.one(r"^gix_validate::tag::name_inner$")
    fl = Flow(f)
    errs = [bi for bi, si, pl, rv, ln, mc in f.assigns() if rv[0] == "agg" and rv[1] == "adt" and rv[2] == "core::result::Result" and rv[3] == "Err"]
    chk.floor("error constructions in name_inner", len(errs), 8)
    out_vars = set(f.locals_named("out"))
    none_edges = set()
    nsel = 0
    for b in f.reachable_blocks():
        sv = f.switch_variants(b)
        if sv:
            vs = unw._discr_vars(fl, sv["place"])
            if vs & out_vars:
                nsel += 1
                for t, names in sv["edges"].items():
                    if "None" in names:
                        none_edges.add((b, t))
    for c in f.calls():
        if c.is_(r"Option::<T>::(is_none|is_some)$") and (fl.root_vars(c.args[0]) & out_vars):
            nsel += 1
            e = fl.result_edges(c)
            none_edges |= e["good"] if c.name.endswith("is_none") else e["bad"]
    chk.floor("tests of the output buffer's presence", nsel, 8)
    reach = f.reach_from(0, avoid_edges=none_edges)
    bad = [b for b in errs if b in reach]
    lines = sorted({ln for bi, si, pl, rv, ln, mc in f.assigns() if bi in bad and rv[0] == "agg" and rv[3] == "Err"})
    chk.ob("sanitize-never-errs", "name_inner: no Err reachable when the output buffer exists", not bad, "Err constructed at line(s) %s is reachable in Mode::Sanitize" % lines, "%s:%d" % (f.file, lines[0] if lines else f.line), key="sanitize-never-errs")
    # out is Some exactly in Sanitize mode
    then = [c for c in f.calls() if c.is_(r"bool>::then$|::then$")]
    okmode = False
    for c in then:
        l = c.args[0]["p"][0] if "p" in c.args[0] else None
        for b in f.reachable_blocks():
            sv = f.switch_variants(b)
            if sv and any(r[0] == "arg" and r[1] == 2 for r in fl.roots(sv["place"], stop_named=False)):
                tg = set(sv["edges"])
                if any(bi in tg and pl == [l] for bi, si, pl, rv, ln, mc in f.assigns()):
                    okmode = True
    chk.ob("output-buffer-iff-sanitize", "name_inner", okmode, "`out` must be created by `matches!(mode, Sanitize).then(..)`", "%s:%d" % (f.file, f.line), key="output-buffer-iff-sanitize")
    fns = [g for g in db.by_crate["gix_validate"] if g.kind != "promoted"]
    chk.floor("gix_validate functions", len(fns), 20)
    for g in fns:
        for x in unw.index_after_shrink(g):
            chk.ob("index-after-shrink", g.name, False, x["what"], "%s:%d" % (g.file, x["line"]), key="shrink|%s" % g.name)
        for l, r in loops.check_fn(g):
            if not r["ok"]:
                chk.ob("loop-progress", "%s loop@%s" % (g.name, r.get("line")), False, r.get("reason", ""), "%s:%s" % (g.file, r.get("line")), key="loop-progress|%s" % g.name)
    chk.ob("index-after-shrink", "gix_validate (%d functions)" % len(fns), True)
    # sanitizing entry point
    s = db.one(r"^gix_validate::reference::name_partial_or_sanitize$")
    reach_cg = db.reachable([s.key], stop=lambda n: not n.startswith("gix_validate::"))
    chk.ob("sanitize-entry-reaches-name_inner", "name_partial_or_sanitize", f.key in reach_cg, "", "%s:%d" % (s.file, s.line), key="sanitize-entry")
    modes = set()
    for n in reach_cg:
        g = db.fns.get(n)
        if g is None or not n.startswith("gix_validate::"):
            continue
        for bi, si, pl, rv, ln, mc in g.assigns():
            if rv[0] == "agg" and rv[2].endswith("gix_validate::reference::Mode") or (rv[0] == "agg" and rv[2].endswith("tag::Mode")):
                modes.add(rv[3])
    chk.ob("sanitize-entry-uses-sanitize-mode", "name_partial_or_sanitize", "Sanitize" in modes, "modes constructed on the path: %s" % sorted(modes), "%s:%d" % (s.file, s.line), key="sanitize-mode")


def one_level_table(db, chk):
    """a complete reference name without a slash must consist of A-Z and '_' only (git's rule for root refs like HEAD, FETCH_HEAD): the byte
    predicate that reference::validate applies with all()/any() is evaluated over 0..=255 by interval abstract interpretation (std predicates by
    their documented sets) and the set of bytes it lets through is compared with that table."""
    from gx import aiint
    from gx.flow import Flow
    from props.C36 import STD, _norm
    f = db.one(r"^gix_validate::reference::validate$")
    fl = Flow(f)
    errs = [bi for bi, si, pl, rv, ln, mc in f.assigns() if rv[0] == "agg" and rv[3] == "SomeLowercase"]
    chk.floor("reference::validate: Error::SomeLowercase construction", len(errs), 1)
    want = _norm([(0x41, 0x5a), (0x5f, 0x5f)])
    done = 0
    for c in f.calls():
        if not c.is_(r"Iterator>?::(all|any)$|::(all|any)$") or len(c.args) < 2:
            continue
        e = fl.result_edges(c)
        err_on_false = bool(e["bad"]) and any(b in set().union(*[f.reach_from(t) for _, t in e["bad"]]) for b in errs) and not any(b in set().union(*[f.reach_from(t) for _, t in e["good"]]) for b in errs)
        err_on_true = bool(e["good"]) and any(b in set().union(*[f.reach_from(t) for _, t in e["good"]]) for b in errs) and not any(b in set().union(*[f.reach_from(t) for _, t in e["bad"]]) for b in errs)
        if not (err_on_false or err_on_true):
            continue
        # the predicate: a closure of validate or a function item
        pred = None
        for r in fl.roots(c.args[1], stop_named=False):
            if r[0] == "const" and isinstance(r[1], str) and r[1].startswith("agg:"):
                pred = ("closure", next((g for g in db.closures_of(f) if g.name == r[1][4:-2]), None))
            elif r[0] == "fnitem":
                pred = ("fn", r[1])
        if "fn" in c.args[1]:
            pred = ("fn", c.args[1]["fn"])
        if pred is None:
            continue
        truth = None
        if pred[0] == "closure" and pred[1] is not None:
            try:
                pw = aiint.piecewise(pred[1], lambda p: p == [2, "*"] or p == [2], 0, 255, models=STD)
                truth = _norm([(a, b) for a, b, v in pw if v == 1])
            except aiint.Unsupported:
                truth = None
        elif pred[0] == "fn":
            import re as _re
            for k_, v_ in STD.items():
                if v_ != "range-contains" and _re.search(k_, pred[1]):
                    truth = _norm(v_)
        if truth is None:
            chk.ob("one-level-name-table", "reference::validate %s@%d" % (c.name.split("::")[-1], c.line), False, "byte predicate not evaluable", c.where(), key="one-level-table|unsupported")
            continue
        is_all = c.name.endswith("::all")
        # all(P) with the error on `false`: every byte must satisfy P; any(Q) with the error on `true`: no byte may satisfy Q
        if is_all and err_on_false:
            allowed = truth
        elif (not is_all) and err_on_true:
            allowed = _norm(aiint._minus([(0, 255)], truth))
        else:
            continue
        done += 1
        def fmt(ivs):
            return ",".join("%02x" % a if a == b else "%02x-%02x" % (a, b) for a, b in ivs)
        chk.ob("one-level-name-table", "reference::validate (Complete mode, no slash)", allowed == want,
               "bytes accepted in a one-level complete name: {%s}; git accepts {%s} (A-Z and '_'): names like `@`, `1`, `FETCH-HEAD` would be taken as valid full names" % (fmt(allowed), fmt(want)),
               c.where(), key="one-level-table|validate")
    chk.floor("reference::validate: byte predicate guarding SomeLowercase", done, 1)


def sole_at_rule(db, chk):
    """git's check_refname_format refuses the name that is exactly `@` (it would be indistinguishable from the HEAD shorthand): name_inner must
    compare the whole input with the one-byte string "@" (zero-expected elsewhere; the constant is looked up in operands and promoted constants)."""
    from gx.flow import Flow
    f = db.one(r"^gix_validate::tag::name_inner$")
    fam = [f] + [g for g in db.closures_of(f) if g.kind == "closure"]
    hit = False
    for g in fam:
        gfl = Flow(g)
        for c in g.calls():
            if not c.is_(r"cmp::PartialEq(<.*>)?>?::(eq|ne)$") or len(c.args) != 2:
                continue
            for a, b in ((c.args[0], c.args[1]), (c.args[1], c.args[0])):
                is_at = a.get("bytes") == "40" or any(r[0] == "const" and r[1] == b"@" for r in gfl.roots(a, stop_named=False))
                if not is_at:
                    for r in gfl.roots(a, stop_named=False):
                        if r[0] == "promoted":
                            pr = g.promoteds.get("%s::{promoted#%s}" % (g.name, r[1]))
                            if pr is not None and any(any(o.get("bytes") == "40" for o in ([rv[1]] if rv[0] == "use" else rv[4] if rv[0] == "agg" else []) if isinstance(o, dict)) for bi, si, pl, rv, ln, mc in pr.assigns()):
                                is_at = True
                whole = any(r[0] == "arg" and r[1] == 1 and not any(str(x).startswith("[") for x in r[2]) for r in gfl.roots(b, stop_named=False))
                if is_at and whole:
                    hit = True
    chk.ob("sole-at-is-rejected", "tag::name_inner", hit, "no comparison of the whole name with the one-byte string @: git check-ref-format refuses the name `@`, here it is accepted (and left as is by the sanitizer)",
           "%s:%d" % (f.file, f.line), key="sole-at|name_inner")


def lock_suffix_rule(db, chk):
    """git refuses every component that ends in `.lock`, however short its stem (`a.lock/b`).  In name_inner the construction of
    Error::LockFileSuffix (and the sanitizer's truncation loop beside it) is decided by the ends_with test, the `/`-or-end-of-input position and
    the sanitize mode - never by a comparison of a LENGTH with a constant: such a guard exempts components of some length."""
    from gx.flow import Flow, comparisons, bool_switch_edges
    f = db.one(r"^gix_validate::tag::name_inner$")
    fl = Flow(f)
    errs = [bi for bi, si, pl, rv, ln, mc in f.assigns() if rv[0] == "agg" and rv[3] == "LockFileSuffix"]
    chk.floor("name_inner: Error::LockFileSuffix constructions", len(errs), 2)

    def from_len(op):
        if "p" not in op:
            return False
        seen, work = set(), [op["p"][0]]
        while work:
            l = work.pop()
            if l in seen or not isinstance(l, int):
                continue
            seen.add(l)
            for b2, s2, pl2, rv2, ln2, mc2 in f.assigns():
                if pl2 and pl2[0] == l:
                    if rv2[0] == "un" and rv2[1] == "PtrMetadata":
                        return True
                    for o in ([rv2[1]] if rv2[0] == "use" else [rv2[2]] if rv2[0] in ("cast", "un") else []):
                        if isinstance(o, dict) and "p" in o:
                            work.append(o["p"][0])
            for c in f.calls():
                if c.dest and c.dest[0] == l and c.is_(r"::len$"):
                    return True
        return False
    bad = []
    for cm in comparisons(f):
        for side, other in (("a", "b"), ("b", "a")):
            if "p" in cm[other]:
                ro = fl.roots(cm[other], stop_named=False)
                if not ro or not all(x[0] in ("const", "promoted", "constdef") or (x[0] == "call" and x[1].endswith("::len")) for x in ro):
                    continue
                cval = "a constant length"
            else:
                if not isinstance(cm[other].get("v"), int) or cm[other]["v"] < 1:
                    continue
                cval = cm[other]["v"]
            if not from_len(cm[side]):
                continue
            rs = fl.roots(cm[side], stop_named=False)
            if not any(x[0] in ("arg", "var") for x in rs):
                continue
            e = bool_switch_edges(f, cm["block"], cm["res"])
            if not e:
                continue
            for er in errs:
                ra = any(er in f.reach_from(t) or er == t for _, t in e[0])
                rb = any(er in f.reach_from(t) or er == t for _, t in e[1])
                lps = [l for l in f.loops() if cm["block"] in l["body"]]
                hdr = {min(lps, key=lambda l: len(l["body"]))["header"]} if lps else set()
                ra = any(er == t or er in f.reach_from(t, avoid=hdr) for _, t in e[0])
                rb = any(er == t or er in f.reach_from(t, avoid=hdr) for _, t in e[1])
                if ra != rb:
                    bad.append((cm.get("line", 0), cm["op"], cval))
    chk.ob("lock-suffix-rejected-at-any-length", "name_inner LockFileSuffix", not bad,
           "whether a `.lock` component is refused depends on a length compared with a constant %s: components of the exempted length (`a.lock/b`) are accepted although git refuses them" % sorted(set(bad))[:2],
           "%s:%d" % (f.file, f.line), key="lock-suffix-length|name_inner")
