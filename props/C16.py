"""C16 Reference transactions are compare-and-swap — expectation decision table (TAB/DOM), rollback by ownership (CG)."""
import re
from gx import dtable
from gx.flow import Flow

TECHNIQUE = "decision-table extraction from MIR (variant combinations of change kind x expected x existing -> can the lock content be written / the lock be kept, if values are equal / different), compared with the CAS specification; ownership-based rollback rules"
EXPLANATION = ("From lock_ref_and_apply_change's MIR the table (Delete|Update) x PreviousValue variant x existing ref (None|Some) -> {new value written / lock "
               "stored} is extracted path-sensitively in those three discriminants, once assuming every Target comparison says `equal` and once `different`, "
               "and must equal the compare-and-swap specification: an edit whose expectation is not met can neither write the lock file nor keep the "
               "lock. In prepare_inner the edits are published to self.updates only after the locking loop, and every lock an edit holds is a gix_lock "
               "File/Marker whose Drop removes it (no mem::forget of locks in gix-ref). pre_process (the split of deref edits) dominates the packed-refs decisions and the locking loop; the name filter of the packed transaction also decides the suppressed loose write, the parked lock and the loose-file removal; both arms of the split move the expectation to the referent. The cleanup boundary of reference locks must lie inside refs/ (known finding F49). Equivalence with a model over whole histories is not decided.")
F = r"transaction::prepare::<impl gix_ref::store_impl::file::Transaction<'_, '_>>::lock_ref_and_apply_change$"
PV = ["Any", "MustExist", "MustNotExist", "MustExistAndMatch", "ExistingMustMatch"]
# (may proceed if compared values are equal, may proceed if they differ)
SPEC_UPDATE = {("Any", "None"): (True, True), ("Any", "Some"): (True, True),
               ("MustExist", "None"): (False, False), ("MustExist", "Some"): (True, True),
               ("MustNotExist", "None"): (True, True), ("MustNotExist", "Some"): (True, False),
               ("MustExistAndMatch", "None"): (False, False), ("MustExistAndMatch", "Some"): (True, False),
               ("ExistingMustMatch", "None"): (True, True), ("ExistingMustMatch", "Some"): (True, False)}
SPEC_DELETE = {("Any", "None"): (True, True), ("Any", "Some"): (True, True),
               ("MustExist", "None"): (False, False), ("MustExist", "Some"): (True, True),
               ("MustNotExist", "None"): (False, False), ("MustNotExist", "Some"): (False, False),
               ("MustExistAndMatch", "None"): (False, False), ("MustExistAndMatch", "Some"): (True, False),
               ("ExistingMustMatch", "None"): (True, True), ("ExistingMustMatch", "Some"): (True, False)}


def run(db, chk):
    preprocess_first_rule(db, chk)
    packable_pairing_rule(db, chk)
    split_expectation_rule(db, chk)
    lock_boundary_rule(db, chk)
    log_mode_rule(db, chk)
    f = db.one(F)
    fl = Flow(f)
    # sinks
    with_mut = f.calls_to(r"gix_lock::file::<impl gix_lock::File>::with_mut$")
    store = [bi for bi, si, pl, rv, ln, mc in f.assigns() if len(pl) >= 3 and pl[-1] == ".lock" and pl[1] == "*" and 1 <= pl[0] <= f.argc]
    chk.floor("lock.with_mut (value write) sites", len(with_mut), 1)
    chk.floor("change.lock = lock store", len(store), 1)
    sel = [("change", lambda r: any(x[0] == "arg" and x[2][-1:] == (".change",) for x in r), ["Delete", "Update"]),
           ("expected", lambda r: any(x[0] == "var" and x[2] == "expected" for x in r), PV),
           ("existing", lambda r: any(x[0] == "var" and x[2] == "existing_ref" for x in r) and not any(x[0] == "var" and x[2] == "expected" for x in r), ["None", "Some"])]
    sinks = [c.block for c in with_mut] + store
    tbl, info = dtable.table(f, sel, store, r"cmp::PartialEq(<.*>)?>?::(eq|ne)$")
    tblw, _ = dtable.table(f, sel, [c.block for c in with_mut], r"cmp::PartialEq(<.*>)?>?::(eq|ne)$")
    chk.set("decision_table_info", info)
    chk.floor("Target comparisons", info["comparisons"], 3)
    chk.floor("switches on change/expected/existing", info["selector_switches"], 8)
    for (chg, exp, ex), got in sorted(tbl.items()):
        want = (SPEC_UPDATE if chg == "Update" else SPEC_DELETE)[(exp, ex)]
        chk.ob("cas-decision-table", "%s expected=%s existing=%s" % (chg, exp, ex), got == want,
               "lock kept if equal/different: %s, specification: %s" % (got, want), "%s:%d" % (f.file, f.line), key="cas|%s|%s|%s" % (chg, exp, ex))
        if chg == "Update":
            gw = tblw[(chg, exp, ex)]
            # the value may only be written when the table allows proceeding
            ok = (not gw[0] or want[0]) and (not gw[1] or want[1])
            chk.ob("cas-write-guarded", "Update expected=%s existing=%s" % (exp, ex), ok, "value written if equal/different: %s, allowed: %s" % (gw, want), "%s:%d" % (f.file, f.line), key="cas-write|%s|%s" % (exp, ex))
    chk.sample({"table": {"%s/%s/%s" % k: v for k, v in list(sorted(tbl.items()))[:6]}})
    # rollback: updates published after the locking loop
    pi = db.one(r"transaction::prepare::<impl gix_ref::store_impl::file::Transaction<'_, '_>>::prepare_inner$")
    pub = [bi for bi, si, pl, rv, ln, mc in pi.assigns() if len(pl) >= 2 and pl[-1] == ".updates" and pl[0] == 1]
    locks = [c for c in pi.calls() if c.is_(r"lock_ref_and_apply_change$")]
    chk.floor("self.updates publication", len(pub), 1)
    chk.floor("lock_ref_and_apply_change calls in prepare_inner", len(locks), 1)
    headers = {min((l for l in pi.loops() if c.block in l["body"]), key=lambda l: len(l["body"]))["header"] for c in locks if any(c.block in l["body"] for l in pi.loops())}
    ok = bool(headers) and all(b not in pi.reach_from(0, avoid=headers) for b in pub) and all(b not in l["body"] for b in pub for l in pi.loops() if l["header"] in headers)
    chk.ob("publish-after-locking", "prepare_inner", ok, "self.updates must be set only after the locking loop", "%s:%d" % (pi.file, pi.line), key="publish-after-locking")
    # every Err result of lock_ref_and_apply_change leads to return without publishing
    pfl = Flow(pi)
    for c in locks:
        e = pfl.result_edges(c)
        rb = set()
        for (_, t) in e["bad"]:
            rb |= pi.reach_from(t)
        chk.ob("error-does-not-publish", "prepare_inner lock failure", bool(e["bad"]) and not (set(pub) & rb), "after a failed lock the edits must be dropped, not published", c.where(), key="error-does-not-publish")
    # no mem::forget / ManuallyDrop of locks in gix_ref
    forget = [(g.name, c.line) for g in db.by_crate["gix_ref"] for c in g.calls() if c.is_(r"core::mem::forget$|ManuallyDrop")]
    chk.ob("locks-released-by-drop", "no mem::forget in gix_ref", not forget, str(forget[:3]), key="no-forget|gix_ref")
    # Edit.lock field type is a gix_lock Marker
    lock_tys = {f.locals[pl[0]] for bi, si, pl, rv, ln, mc in f.assigns() if pl == [pl[0]] and f.local_name(pl[0]) == "lock"}
    chk.ob("locks-released-by-drop", "lock is a gix_lock type", any("gix_lock::Marker" in t or "gix_lock::File" in t for t in lock_tys), str(sorted(lock_tys))[:200], key="lock-type")
    forget_lock = [(g.name, c.line) for g in db.by_crate["gix_lock"] for c in g.calls() if c.is_(r"core::mem::forget$")]
    chk.ob("locks-released-by-drop", "no mem::forget in gix_lock", not forget_lock, str(forget_lock[:3]), key="no-forget|gix_lock")


def log_mode_rule(db, chk):
    """an edit whose log mode is RefLog::Only (e.g. the parent half of a split deref edit) never removes the reference itself: every removal of a
    reference file in commit_inner is guarded by a boolean whose every non-false definition is either the result of `mode == RefLog::AndReference`
    or lies behind the true edge of such a comparison."""
    from gx.flow import Flow
    f = db.one(r"^gix_ref::store_impl::file::transaction::commit::.*commit_inner$")
    fl = Flow(f)
    dels = [c for c in f.calls_to(r"std::fs::remove_file$") if fl.derives_from_call(c.args[0], r"::reference_path$")]
    chk.floor("commit_inner: removal of a reference file", len(dels), 1)

    def is_mode_eq(c, g=None, gfl=None):
        g = g or f
        gfl = gfl or fl
        if not c.is_(r"cmp::PartialEq(<.*>)?>?::eq$") or len(c.args) != 2:
            return False
        tys = [g.locals[a["p"][0]] if "p" in a and isinstance(a["p"][0], int) else "" for a in c.args]
        if not any("transaction::RefLog" in t for t in tys):
            return False
        # the constant side must be the AndReference variant
        for a in c.args:
            for r in gfl.roots(a, stop_named=False):
                if r[0] == "promoted":
                    pr = g.promoteds.get("%s::{promoted#%s}" % (g.name, r[1]))
                    if pr is not None and any((rv[0] == "agg" and rv[3] == "AndReference") or (rv[0] == "use" and rv[1].get("variant") == "AndReference") for bi, si, pl, rv, ln, mc in pr.assigns()):
                        return True
                if r[0] == "const" and isinstance(r[1], str) and "AndReference" in r[1]:
                    return True
        return False

    def flag_bad_defs(g, L, depth=0):
        """lines at which local L of g can become true without a `mode == AndReference` test having succeeded"""
        gfl = Flow(g)
        geqs = [c for c in g.calls() if is_mode_eq(c, g, gfl)]
        te = set()
        for c in geqs:
            te |= gfl.result_edges(c)["good"]
        # a call of a closure whose result cannot be true without the test counts as the test itself
        if depth < 3:
            for c in g.calls():
                clo = getattr(c, "callee", {}).get("recv_closure") if isinstance(getattr(c, "callee", None), dict) else None
                h = next((x for x in db.closures_of(f) if x.name == clo), None) if clo else None
                if h is not None and h is not g and "bool" in (h.locals[0] if h.locals else "") and not flag_bad_defs(h, 0, depth + 1):
                    te |= gfl.result_edges(c)["good"]
        bad = []
        for bi, si, pl, rv, ln, mc in g.assigns():
            if pl != [L]:
                continue
            if rv[0] == "use" and "p" not in rv[1] and rv[1].get("v") == 0:
                continue
            if rv[0] == "use" and "p" in rv[1] and len(rv[1]["p"]) == 1 and g.locals[rv[1]["p"][0]] == "bool":
                bad += flag_bad_defs(g, rv[1]["p"][0], depth) if depth < 4 else [ln]
                continue
            if not (te and gfl.cut_off([bi], te)):
                bad.append(ln)
        for c in g.calls():
            if c.dest != [L] or c in geqs:
                continue
            clo = getattr(c, "callee", {}).get("recv_closure") if isinstance(getattr(c, "callee", None), dict) else None
            h = next((x for x in db.closures_of(f) if x.name == clo), None) if clo else None
            if h is not None and depth < 3:
                sub = flag_bad_defs(h, 0, depth + 1)
                # the closure's result is fine if it cannot be true without the test; otherwise the call site must itself be behind one
                if sub and not (te and gfl.cut_off([c.block], te)):
                    bad.append(c.line)
            elif not (te and gfl.cut_off([c.block], te)):
                bad.append(c.line)
        return bad

    eqs = [c for c in f.calls() if is_mode_eq(c)]
    chk.floor("commit_inner: comparisons `mode == RefLog::AndReference`", len(eqs), 1)
    true_edges = set()
    for c in eqs:
        true_edges |= fl.result_edges(c)["good"]
    for d in dels:
        # nearest dominating switch on a plain bool local whose zero edge avoids the removal
        guard = None
        b = d.block
        idom = f.idom()
        while b is not None and b != 0:
            b = idom.get(b)
            if b is None:
                break
            t = f.term(b)
            if t[0] == "switch" and "p" in t[1] and len(t[1]["p"]) == 1 and f.locals[t[1]["p"][0]] == "bool":
                zero = [x for v, x in t[2] if v == 0]
                if zero and d.block not in f.reach_from(zero[0], avoid={b}):
                    guard = (b, t[1]["p"][0])
                    break
        if guard is None:
            chk.ob("reference-removed-only-with-AndReference", "commit_inner remove_file@%d" % d.line, False, "no boolean guard found in front of the removal", d.where(), key="log-mode|commit_inner|guard")
            continue
        # the guard local may be a copy of the decisive one
        L = guard[1]
        for _ in range(3):
            ds = [(bi, rv) for bi, si, pl, rv, ln, mc in f.assigns() if pl == [L]]
            if len(ds) == 1 and ds[0][1][0] == "use" and "p" in ds[0][1][1] and len(ds[0][1][1]["p"]) == 1:
                L = ds[0][1][1]["p"][0]
            else:
                break
        bad = flag_bad_defs(f, L)
        chk.ob("reference-removed-only-with-AndReference", "commit_inner remove_file@%d" % d.line, not bad,
               "the flag deciding the removal of the reference file can become true without `mode == RefLog::AndReference` (line(s) %s): a log-only edit - the parent of a split deref edit - would delete its symbolic ref" % sorted(set(bad)),
               d.where(), key="log-mode|commit_inner|remove_file")


def preprocess_first_rule(db, chk):
    """edits that dereference a symbolic ref are split by pre_process() into a log-only edit of the symbolic ref and a real edit of its referent.
    Everything prepare_inner decides from the list of edits afterwards - which names go into the packed-refs transaction, whether packed-refs
    must be consulted for existing values, which refs are locked - has to see the SPLIT list: the pre_process call dominates those decisions and
    they are unreachable from its failure edge."""
    f = db.one(r"^gix_ref::store_impl::file::transaction::prepare::<impl gix_ref::store_impl::file::Transaction<'_, '_>>::prepare_inner$")
    fl = Flow(f)
    pre = f.calls_to(r"::pre_process$")
    users = [c for c in f.calls() if c.is_(r"::packed_transaction$|::assure_packed_refs_uptodate$|::lock_ref_and_apply_change$|packed::Transaction>?::prepare$")]
    chk.floor("prepare_inner: pre_process / consumers of the edit list", min(len(pre), len(users) // 3), 1)
    if not pre:
        return
    good = fl.result_edges(pre[0])["good"]
    for u in users:
        ok = f.dominates(pre[0].block, u.block) and bool(good) and fl.cut_off([u.block], good)
        chk.ob("edits-split-before-use", "prepare_inner %s@%d" % (u.name.split("::")[-1], u.line), ok,
               "runs before (or without) the split of dereferenced symbolic-ref edits: the referent's edit is invisible to it (a delete through HEAD leaves the packed referent, expectations are checked against loose refs only)",
               u.where(), key="preprocess-first|%s" % u.name.split("::")[-1])


PACKABLE = r"::is_packable$|::possibly_adjust_name_for_prefixes$"


def packable_pairing_rule(db, chk):
    """PackedRefs::...RemoveLooseSourceReference moves object updates into packed-refs and removes the loose file.  prepare_inner leaves names out
    of the packed transaction that cannot be packed (HEAD and other pseudo refs, refs/bisect, worktree-private refs: the name filter
    possibly_adjust_name_for_prefixes).  For exactly those the loose file is the only copy, so the same filter has to decide (a) the
    `direct_to_packed_refs` argument that suppresses the loose write in prepare, (b) the skipped lock commit and (c) the removal of the loose
    file in commit_inner for Update edits.  Otherwise an update of a detached HEAD deletes HEAD."""
    from gx.flow import bool_switch_edges
    p = db.one(r"^gix_ref::store_impl::file::transaction::prepare::<impl gix_ref::store_impl::file::Transaction<'_, '_>>::prepare_inner$")
    pfl = Flow(p)
    filt = p.calls_to(r"::possibly_adjust_name_for_prefixes$")
    chk.floor("prepare_inner: name filter for the packed transaction", len(filt), 1)
    lk = p.calls_to(r"::lock_ref_and_apply_change$")
    chk.floor("prepare_inner: lock_ref_and_apply_change", len(lk), 1)
    for c in lk:
        ok = len(c.args) >= 6 and pfl.derives_from_call(c.args[5], PACKABLE)
        chk.ob("unpackable-refs-stay-loose", "prepare_inner direct_to_packed_refs@%d" % c.line, ok,
               "the flag that suppresses the loose write does not depend on whether the name can be packed: an object update of HEAD / refs/bisect/* in RemoveLooseSourceReference mode is written nowhere",
               c.where(), key="packable|prepare_inner")
    f = db.one(r"^gix_ref::store_impl::file::transaction::commit::.*commit_inner$")
    fl = Flow(f)
    tests = f.calls_to(PACKABLE)
    good = set()
    for t in tests:
        e = fl.result_edges(t)
        good |= e["good"]
        # a plain bool result: the edges of the switch on it
        if not e["good"] and t.dest and len(t.dest) == 1:
            for b in range(len(f.blocks)):
                tm = f.term(b)
                if tm[0] == "switch" and "p" in tm[1] and any(r[0] == "call" and r[1] == t.name for r in fl.roots(tm[1], stop_named=False)):
                    ed = bool_switch_edges(f, b, tm[1]["p"][0])
                    if ed:
                        good |= ed[0]
    # (b) the lock is parked (not committed) only for packable names
    parks = [(bi, ln) for bi, si, pl, rv, ln, mc in f.assigns() if pl and pl[-1] == ".lock" and rv[0] == "use" and "p" in rv[1]]
    chk.floor("commit_inner: lock parked for the packed-refs path", len(parks), 1)
    for bi, ln in parks:
        chk.ob("unpackable-refs-stay-loose", "commit_inner lock parked@%d" % ln, bool(good) and fl.cut_off([bi], good),
               "the loose lock of an object update is kept back (and later dropped) although the name may not be packable", "%s:%d" % (f.file, ln), key="packable|commit_inner|park")
    # (c) the removal flag of Update edits derives from the filter
    dels = [c for c in f.calls_to(r"std::fs::remove_file$") if fl.derives_from_call(c.args[0], r"::reference_path$")]
    for d in dels:
        flags = set()
        lps = [l for l in f.loops() if d.block in l["body"]]
        hdr = {min(lps, key=lambda l: len(l["body"]))["header"]} if lps else set()
        for b in range(len(f.blocks)):
            tm = f.term(b)
            if tm[0] == "switch" and "p" in tm[1] and len(tm[1]["p"]) == 1 and f.locals[tm[1]["p"][0]] == "bool" and f.dominates(b, d.block):
                succ = f.succs(b)
                if any(d.block in f.reach_from(x, avoid=hdr) or x == d.block for x in succ) and not all(d.block in f.reach_from(x, avoid=hdr) or x == d.block for x in succ):
                    flags.add(tm[1]["p"][0])
        ok = bool(flags) and any(fl.derives_from_call({"p": [L]}, PACKABLE) for L in flags)
        chk.ob("unpackable-refs-stay-loose", "commit_inner remove_file@%d" % d.line, ok,
               "the loose reference of an Update edit is removed without asking whether the name went into packed-refs: HEAD (detached), refs/bisect/* vanish", d.where(), key="packable|commit_inner|remove")


def split_expectation_rule(db, chk):
    """a deref edit on a symbolic ref is split into a log-only edit of the symbolic ref and the real edit of its referent.  The expected previous
    value is about the REFERENT (git update-ref [-d] HEAD <old> compares <old> with the branch).  So in both arms of the split (Update and Delete)
    the child's `expected` is MOVED out of the parent - std::mem::replace/take, leaving PreviousValue::Any behind - and never copied, or the
    log-only parent compares the symbolic ref itself with an object id and the transaction can never succeed.  Sibling agreement of the arms."""
    f = db.one(r"RefEditsExt<E>>::extend_with_splits_of_symbolic_refs$")
    fl = Flow(f)
    n = 0
    for bi, si, pl, rv, ln, mc in f.assigns():
        if not (rv[0] == "agg" and rv[1] == "adt" and rv[2].endswith("transaction::Change") and "expected" in rv[5]):
            continue
        n += 1
        op = rv[4][rv[5].index("expected")]
        calls_ = {r[1] for r in fl.roots(op, stop_named=False) if r[0] == "call"}
        moved = any(re.search(r"mem::(replace|take)$", c) for c in calls_)
        chk.ob("split-moves-expectation-to-referent", "extend_with_splits Change::%s@%d" % (rv[3], ln), moved,
               "the referent's edit gets a copy of the expectation (%s) while the log-only parent keeps it: the parent compares the symbolic ref with an object id and the transaction always fails" % (sorted(x.split("::")[-1] for x in calls_)[:3],),
               "%s:%d" % (f.file, ln), key="split-expectation|%s" % rv[3])
    chk.floor("extend_with_splits: child edits built (Update and Delete arm)", n, 2)


def lock_boundary_rule(db, chk):
    """when a ref lock is dropped, the directories that were (or became) empty above it are removed up to a boundary.  git does not recognise a
    directory without `refs/` as a repository, so for references inside refs/ that boundary must lie inside refs/: deleting the last branch and
    the last tag must not take `.git/refs` with it.  In lock_ref_and_apply_change the boundary handed to gix_lock::{Marker,File}::acquire_*
    derives from a join with the constant `refs` (directly or through a helper), never from the bare base directory."""
    f = db.one(r"::lock_ref_and_apply_change$")
    fl = Flow(f)
    acq = [c for c in f.calls() if c.is_(r"gix_lock::acquire::<impl gix_lock::(Marker|File)>::acquire_to_(hold|update)_resource$|::acquire_to_(hold|update)_resource$")]
    fam = [f] + list(db.closures_of(f))
    acq = [(g, c) for g in fam for c in g.calls() if c.is_(r"::acquire_to_(hold|update)_resource$")]
    chk.floor("lock_ref_and_apply_change: lock acquisitions", len(acq), 2)

    def joins_refs(g, depth=0):
        """does g (or a workspace helper it calls) join a path with the constant `refs`?"""
        gfl = Flow(g)
        for c in g.calls():
            if c.is_(r"Path::join$|PathBuf::push$") and len(c.args) > 1 and any(r[0] == "const" and r[1] in (b"refs", "refs") for r in gfl.roots(c.args[1], stop_named=False)):
                return True
        return False
    for g, c in acq:
        gfl = Flow(g)
        ok = False
        for r in gfl.roots(c.args[2], stop_named=False) if len(c.args) > 2 and "p" in c.args[2] else []:
            if r[0] == "const" and r[1] in (b"refs", "refs"):
                ok = True
            if r[0] == "call":
                h = [x for x in db.by_crate["gix_ref"] if x.name == r[1] and x.kind != "promoted"]
                if h and joins_refs(h[0]):
                    ok = True
        chk.ob("lock-cleanup-stops-inside-refs", "lock_ref_and_apply_change %s@%d" % (c.name.split("::")[-1], c.line), ok,
               "the cleanup boundary of the reference lock is the repository directory itself: after the last branch and the last tag are deleted the empty `refs` directory is removed too and git no longer recognises the repository",
               c.where(), key="lock-boundary|%s" % c.name.split("::")[-1])
