"""C17 Reference transactions terminate — loop progress and recursion bound over the call-graph closure (LP)."""
import re
from gx import loops, lp

TECHNIQUE = "loop-progress analysis (exit-condition backward slice, state write on every header->back-edge path) and recursion-cycle census over the call-graph closure of prepare/commit/lock acquisition"
EXPLANATION = ("Over every workspace function reachable from file::Transaction::{prepare,commit}, packed::Transaction::{prepare,commit} and "
               "gix_lock::acquire::lock_with_mode: each natural loop that is not a `for` over an iterator must, on every path from its header back "
               "to it, write one of the loop-carried values its exit condition depends on (or wait on an external agent: atomics, clocks, locks); "
               "every call-graph cycle in that closure must be a listed, reviewed one. In gix_fs::snapshot no lock guard is alive when the same lock is requested again (guard liveness from MIR drops/moves). The wall-clock bound of system calls is not decided.")
ENTRIES = [r"^gix_ref::store_impl::file::transaction::prepare::<impl gix_ref::store_impl::file::Transaction<'_, '_>>::prepare$",
           r"^gix_ref::store_impl::file::transaction::commit::<impl gix_ref::store_impl::file::Transaction<'_, '_>>::commit$",
           r"^gix_ref::store_impl::packed::transaction::<impl gix_ref::store_impl::packed::Transaction>::prepare$",
           r"^gix_ref::store_impl::packed::transaction::<impl gix_ref::store_impl::packed::Transaction>::commit$",
           r"^gix_lock::acquire::lock_with_mode$"]
SCOPE = ("gix_ref", "gix_lock", "gix_tempfile", "gix_fs", "gix_utils", "gix_validate", "gix_object", "gix_actor", "gix_date", "gix_hash", "gix_path", "gix_features")
# self-recursive functions in the closure that were reviewed: each consumes input / a strictly shrinking structure
REVIEWED_RECURSION = {
}


def run(db, chk):
    no_relock_rule(db, chk)
    roots = [db.one(p).key for p in ENTRIES]
    scope = set()
    for c in SCOPE:
        scope |= {f.key for f in db.by_crate[c]}
    parent = db.reachable(roots, stop=lambda n: n not in scope)
    fns = [db.fns[n] for n in parent if n in scope and db.fns[n].kind != "promoted"]
    chk.set("functions_in_closure", len(fns))
    chk.floor("functions reachable from the transaction/lock entry points", len(fns), 150)
    kinds = {}
    nloops = 0
    for f in fns:
        for l, r in loops.check_fn(f):
            nloops += 1
            kinds[r["kind"]] = kinds.get(r["kind"], 0) + 1
            site = "%s loop@%s" % (f.name, r.get("line"))
            if r["ok"]:
                if r["kind"] != "for":
                    chk.ob("loop-progress", site, True, r["kind"])
            else:
                path = " -> ".join(x.split("::")[-1] for x in db.path_to(parent, f.key)[-4:])
                chk.ob("loop-progress", site, False, r.get("reason", "") + " [reached via %s]" % path, "%s:%s" % (f.file, r.get("line")),
                       key="loop-progress|%s|%s" % (f.name, ",".join(map(str, r.get("state", [])))))
    chk.set("loops_analysed", nloops)
    chk.set("loop_kinds", kinds)
    chk.floor("loops analysed", nloops, 25)
    # recursion: direct self recursion + mutual cycles via SCC
    cg = db.callgraph()
    keys = {f.key for f in fns}
    index, low, onst, st, sccs = {}, {}, set(), [], []
    import sys
    sys.setrecursionlimit(10000)
    def strong(v):
        index[v] = low[v] = len(index)
        st.append(v); onst.add(v)
        for w in cg.get(v, ()):
            if w not in keys:
                continue
            if w not in index:
                strong(w); low[v] = min(low[v], low[w])
            elif w in onst:
                low[v] = min(low[v], index[w])
        if low[v] == index[v]:
            comp = []
            while True:
                w = st.pop(); onst.discard(w); comp.append(w)
                if w == v:
                    break
            if len(comp) > 1 or v in cg.get(v, ()):
                sccs.append(comp)
    for k in keys:
        if k not in index:
            strong(k)
    chk.set("recursion_cycles", len(sccs))
    for comp in sccs:
        name = sorted(comp)[0]
        f = db.fns[name]
        if len(comp) == 1:
            r = lp.bounded_recursion(db, f)
            ok = r["ok"] and r.get("rec_calls", 0) > 0
            if not ok and name in REVIEWED_RECURSION:
                chk.ob("recursion-reviewed", name, True, REVIEWED_RECURSION[name])
                continue
            # trait-forwarding impls (`impl Trait for &T` calling T's method) show up as self edges through unresolved trait calls
            fwd = all(c.callee.get("unres") or c.callee.get("virt") for c in f.calls() if name in db.edges(f) and (c.callee.get("path") == f.trait_item))
            if not ok and f.trait_item and fwd:
                chk.ob("recursion-reviewed", name, True, "generic/dyn forwarding to the same trait method of another type")
                continue
            chk.ob("recursion-bounded", name, ok, r.get("reason", ""), "%s:%d" % (f.file, f.line), key="recursion|%s" % name)
        else:
            tr = all((db.fns[n].trait_item is not None) for n in comp)
            chk.ob("recursion-bounded", " <-> ".join(sorted(x.split("::")[-1] for x in comp))[:120], tr,
                   "mutual recursion among %d functions" % len(comp), "%s:%d" % (f.file, f.line), key="recursion|" + "|".join(sorted(comp))[:300])


GUARD = re.compile(r"^(lock_api::rwlock::RwLock(Read|Write|UpgradableRead)Guard<|lock_api::mutex::MutexGuard<|core::cell::Ref(Mut)?<|std::sync::\w*Guard<|parking_lot::\w*Guard<)")
ACQUIRE = r"threading::_impl::get_(ref|mut)$|RwLock<.*>::(read|write)$|::lock$|RefCell<.*>::borrow(_mut)?$|::get_ref$|::get_mut$"


def no_relock_rule(db, chk):
    """prepare() reads the packed-refs snapshot through gix_fs::SharedFileSnapshotMut (a RwLock, a RefCell without threads).  Asking that lock
    for a second guard while the first is still alive blocks the calling thread on itself for ever (parking_lot is not re-entrant; a RefCell
    panics): in gix_fs::snapshot every guard has died - MIR drop of the local, or the local moved into mem::drop - on every path from its
    acquisition to the next acquisition."""
    fns = [f for f in db.by_crate["gix_fs"] if f.kind != "promoted" and "::snapshot::" in f.name]
    chk.floor("functions of gix_fs::snapshot", len(fns), 4)
    n = 0
    for f in fns:
        acq = [c for c in f.calls() if c.is_(ACQUIRE) and c.dest and len(c.dest) == 1 and GUARD.search(f.locals[c.dest[0]])]
        if not acq:
            continue
        for a in acq:
            n += 1
            g = a.dest[0]
            kills = {b for b in range(len(f.blocks)) if f.term(b)[0] == "drop" and f.term(b)[1] == [g]}
            # moved out: `_x = move g` and _x handed to a call (mem::drop) - the guard dies in that call
            movers = {pl[0] for bi, si, pl, rv, ln, mc in f.assigns() if len(pl) == 1 and rv[0] == "use" and rv[1].get("p") == [g] and rv[1].get("mv")}
            for c in f.calls():
                if any(x.get("p") in ([g], ) and x.get("mv") for x in c.args) or any("p" in x and x["p"][0] in movers and len(x["p"]) == 1 and x.get("mv") for x in c.args):
                    if c.is_(r"mem::drop$"):
                        kills.add(c.block)
            live = f.reach_from(a.target, avoid=kills) if a.target is not None else set()
            again = [c for c in acq if c is not a and c.block in live]
            chk.ob("no-second-guard-while-one-is-held", "%s %s@%d" % (f.name.split("::")[-1], a.name.split("::")[-1], a.line), not again,
                   "the lock is requested again at line %s while the guard taken here can still be alive: the thread waits for itself (prepare() never returns once packed-refs changed on disk)" % [c.line for c in again],
                   a.where(), key="relock|%s" % f.name.split("::")[-1])
    chk.floor("guard acquisitions in gix_fs::snapshot", n, 4)
