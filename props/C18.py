"""C18 Reference iteration order — the loose stream merged with packed-refs must be ordered like the merge compares (TAB/FLOW)."""
import re
from gx import facts
from gx.flow import Flow

TECHNIQUE = "order-provenance rule: the comparator that orders the directory walk must be directory-aware (is_dir + b'/'), checked in both walker configurations; the merge compares full names; the loose stream is produced by that walk"
EXPLANATION = ("LooseThenPacked::next merges two streams by comparing full reference names as bytes, which is only correct if both are in ascending "
               "full-name order. The loose stream comes from gix_features::fs::walkdir_sorted_new; a depth-first walk yields full-name order only if "
               "siblings are ordered as if directory names ended in '/'. The check requires, in the walkdir build (workspace) and the jwalk build "
               "(fs-walkdir-parallel), that the walker is given a custom sibling comparator (sort_by / process_read_dir, not sort_by_file_name / sort(true)) "
               "whose code consults is_dir and the byte '/' and compares the common prefix first; that SortedLoosePaths obtains its walk from that function; "
               "and that the merge's comparison is a byte-wise Ord::cmp of names. ref_contents classifies NotFound and ENOTDIR (a leading component is a file) as `not here`, like git's files backend, so short-name candidates are tried in full. "
               "Every candidate loop of find_one_with_verified_input reaches the loose read and the packed lookup in the same iteration. DWIM lookup order and values are otherwise not decided.")
NAIVE = r"(WalkDir::sort_by_file_name$|WalkDirGeneric::<C>::sort$|::sort_by_file_name$)"


def check_sorter(cfg, db, chk, builder_pat):
    f = db.one(r"^gix_features::fs::walkdir::walkdir_sorted_new$")
    naive = [c for c in f.calls() if c.is_(NAIVE)]
    custom = [c for c in f.calls() if c.is_(builder_pat)]
    # closure tree + gix_features::fs helpers reachable
    scope = {g.key for g in db.by_crate["gix_features"]}
    reach = db.reachable([f.key], stop=lambda n: n not in scope)
    fns = [db.fns[n] for n in reach if n in scope and n != f.key]
    isdir = any(c.is_(r"FileType::is_dir$") for g in fns + [f] for c in g.calls())
    slash = False
    prefix_first = False
    for g in fns:
        for bi, si, pl, rv, ln, mc in g.assigns():
            for op in __import__("gx.facts", fromlist=["x"]).rvalue_operands(rv):
                if op.get("refv") == 47 or (op.get("v") == 47 and op.get("ty") == "u8"):
                    slash = True
        for c in g.calls():
            for a in c.args:
                if a.get("refv") == 47 or (a.get("v") == 47 and a.get("ty") == "u8"):
                    slash = True
            if c.is_(r"::min$"):
                prefix_first = True
        for p in db.find("^" + re.escape(g.name) + r"::\{promoted#\d+\}$"):
            for bi, si, pl, rv, ln, mc in p.assigns():
                for op in __import__("gx.facts", fromlist=["x"]).rvalue_operands(rv):
                    if op.get("v") == 47 and op.get("ty") == "u8":
                        slash = True
    ok = bool(custom) and not naive and isdir and slash and prefix_first
    why = []
    if naive or not custom:
        why.append("the walker is ordered by %s, i.e. siblings by bare file name: `a/b` is yielded before `a-b` although `a-b` < `a/b` as full names" % ([c.name.split("::")[-1] for c in naive] or "no custom comparator"))
    else:
        if not isdir:
            why.append("comparator does not consult is_dir")
        if not slash:
            why.append("comparator does not use b'/'")
        if not prefix_first:
            why.append("comparator does not compare the common prefix first")
    chk.ob("directory-aware-sibling-order", "%s: walkdir_sorted_new" % cfg, ok, "; ".join(why), "%s:%d" % (f.file, f.line), key="dir-aware|%s|walkdir_sorted_new" % cfg)
    chk.count("%s: comparator functions examined" % cfg, len(fns))


def run(db, chk):
    not_found_table(db, chk)
    prefix_filter_rule(db, chk)
    candidate_order_rule(db, chk)
    candidate_prefix_rule(db, chk)
    prefix_semantics_agree_rule(db, chk)
    check_sorter("ws(walkdir)", db, chk, r"walkdir::WalkDir::sort_by$")
    db2 = facts.load("fs-par")
    check_sorter("fs-par(jwalk)", db2, chk, r"::process_read_dir$")
    at = db.one(r"^gix_ref::store_impl::file::loose::iter::SortedLoosePaths::at$")
    uses = any(c.is_(r"gix_features::fs::walkdir::walkdir_sorted_new$") for g in [at] + db.closures_of(at) for c in g.calls())
    chk.ob("loose-stream-from-sorted-walk", "SortedLoosePaths::at", uses, "must obtain its walk from walkdir_sorted_new", "%s:%d" % (at.file, at.line), key="loose-from-sorted-walk")
    nx = db.one(r"^<gix_ref::store_impl::file::overlay_iter::LooseThenPacked<'p, 's> as core::iter::traits::iterator::Iterator>::next$|LooseThenPacked<'_, '_> as core::iter::traits::iterator::Iterator>::next$")
    cm = [c for c in nx.calls() if c.is_(r"::cmp$")]
    chk.floor("name comparisons in LooseThenPacked::next", len(cm), 1)
    for c in cm:
        ok = bool(re.search(r"(bstr::bstr::BStr|\[u8\]|gix_ref::FullNameRef|BStr)", c.callee.get("targs", "") + c.callee.get("self", "") + c.name))
        chk.ob("merge-compares-bytes", "LooseThenPacked::next cmp@%d" % c.line, ok, "compares %s" % c.callee.get("self", c.name), c.where(), key="merge-compares-bytes")


def not_found_table(db, chk):
    """short-name lookup tries candidate paths in git's order and must move on when a candidate cannot exist: like git's files backend (ENOENT or
    ENOTDIR), ref_contents has to classify both `no such file` and `a leading component is a file` (refs/tags/a exists while refs/tags/a/x is
    probed) as `not here`; any other classification turns the lookup of refs/heads/a/x by its short name into an error."""
    from gx.flow import Flow
    f = db.one(r"^gix_ref::store_impl::file::find::.*ref_contents$")
    fl = Flow(f)
    kinds, raws = set(), set()
    for c in f.calls():
        if c.is_(r"cmp::PartialEq(<.*>)?>?::(eq|ne)$") and len(c.args) == 2:
            if any(fl.derives_from_call(a, r"io::error::Error::kind$|Error::kind$") for a in c.args):
                for a in c.args:
                    for r in fl.roots(a, stop_named=False):
                        if r[0] == "promoted":
                            pr = f.promoteds.get("%s::{promoted#%s}" % (f.name, r[1]))
                            if pr is not None:
                                kinds |= {rv[3] for bi, si, pl, rv, ln, mc in pr.assigns() if rv[0] == "agg" and rv[2].endswith("ErrorKind")}
            if any(fl.derives_from_call(a, r"::raw_os_error$") for a in c.args):
                for a in c.args:
                    for r in fl.roots(a, stop_named=False):
                        if r[0] == "promoted":
                            pr = f.promoteds.get("%s::{promoted#%s}" % (f.name, r[1]))
                            if pr is not None:
                                raws |= {op.get("v") for bi, si, pl, rv, ln, mc in pr.assigns() if rv[0] == "agg" for op in rv[4] if "p" not in op}
                        if r[0] == "const" and isinstance(r[1], int):
                            raws.add(r[1])
    # switch on the kind's discriminant (match err.kind() { NotFound | NotADirectory => .. })
    for bi in f.reachable_blocks():
        sv = f.switch_variants(bi)
        if sv and any("NotFound" in names for names in sv["edges"].values()):
            for names in sv["edges"].values():
                if "NotFound" in names and len(names) <= 4:
                    kinds |= set(names)
    chk.floor("ref_contents: error kinds classified", len(kinds), 1)
    ok = "NotFound" in kinds and ("NotADirectory" in kinds or 20 in raws)
    chk.ob("missing-candidate-is-not-an-error", "ref_contents", ok,
           "kinds treated as `not found`: %s, raw errno values: %s; git also treats ENOTDIR (20) as not found: with refs/tags/a a file, find(\"a/x\") fails on the candidate refs/tags/a/x instead of reaching refs/heads/a/x" % (sorted(kinds), sorted(x for x in raws if x is not None)),
           "%s:%d" % (f.file, f.line), key="not-found-table|ref_contents")


def prefix_filter_rule(db, chk):
    """prefixed iteration: when the prefix ends inside a path component (refs/heads/fo), loose files below the parent directory are filtered by the
    remainder - which must be matched against the path BELOW THE ITERATION ROOT (foo/bar starts with fo), never against the leaf file name
    (bar does not, x/foo would)."""
    from gx.flow import Flow
    f = db.one(r"^<gix_ref::store_impl::file::loose::iter::SortedLoosePaths as core::iter::traits::iterator::Iterator>::next$")
    fam = [f] + [g for g in db.closures_of(f) if g.kind == "closure"]
    n = 0
    for g in fam:
        gfl = Flow(g)
        for c in g.calls():
            if c.is_(r"::starts_with$") and c.args:
                n += 1
                leaf = gfl.derives_from_call(c.args[0], r"Path::file_name$")
                # ... or through a closure handed to and_then/map on the way
                sites = {r[2] for r in gfl.roots(c.args[0], stop_named=False, sites=True) if r[0] == "call" and len(r) > 2}
                for c2 in g.calls():
                    if c2.block in sites:
                        for a in c2.args:
                            if "p" not in a:
                                continue
                            for bi, si, pl, rv, ln, mc in g.assigns():
                                if pl == [a["p"][0]] and rv[0] == "agg" and rv[1] == "closure":
                                    cn = rv[2]
                                    if any(h.calls_to(r"Path::file_name$") for h in fam if h.name.endswith(cn) or cn.endswith(h.name.split("::")[-1]) and h.name.startswith(g.name)):
                                        leaf = True
                chk.ob("prefix-filter-on-path-below-root", "%s starts_with@%d" % (g.name.split("::")[-1], c.line), not leaf,
                       "the prefix remainder is compared with the file NAME of a loose reference: with prefix refs/heads/fo the loose ref refs/heads/foo/bar is dropped (a stale packed value is then returned) and refs/heads/x/foo is included",
                       c.where(), key="prefix-filter|SortedLoosePaths")
    chk.floor("SortedLoosePaths::next: prefix test", n, 1)


def candidate_order_rule(db, chk):
    """a short name is resolved through git's candidate list (refs/<n>, refs/tags/<n>, refs/heads/<n>, refs/remotes/<n>, ...) and the FIRST
    candidate that exists wins - whether it lives in a loose file or only in packed-refs.  `Loose beats packed` holds for the same full name
    only.  So each candidate is looked up loose and packed before the next one is tried: in find_one_with_verified_input every loop over the
    candidates that reaches a loose read (ref_contents) through its callees also reaches the packed lookup in the same iteration, and vice versa."""
    f = db.one(r"^gix_ref::store_impl::file::find::<impl gix_ref::file::Store>::find_one_with_verified_input$|^gix_ref::store_impl::file::find::<impl gix_ref::store_impl::file::Store>::find_one_with_verified_input$")
    LOOSE, PACKED = r"::ref_contents$", r"packed::find::<impl gix_ref::store_impl::packed::Buffer>::(try_find_full_name|try_find|find)$|packed::Buffer>::try_find_full_name$"
    in_ref = lambda n: n.startswith("gix_ref::") or n.startswith("<gix_ref::")
    n = 0
    for l in f.loops():
        calls_ = [c for c in f.calls() if c.block in l["body"]]
        keys = []
        for c in calls_:
            for nm in c.names:
                g = db.fns.get(nm) if isinstance(db.fns, dict) else None
                if g is not None and in_ref(g.name):
                    keys.append(g.key)
        reach = db.reachable(keys, stop=lambda nm: not in_ref(nm)) if keys else {}
        kinds = set()
        for nm in list(reach) + []:
            g = db.fns.get(nm) if isinstance(db.fns, dict) else None
            if g is None:
                continue
            if g.calls_to(LOOSE):
                kinds.add("loose")
            if g.calls_to(PACKED):
                kinds.add("packed")
        for c in calls_:
            if c.is_(LOOSE): kinds.add("loose")
            if c.is_(PACKED): kinds.add("packed")
        if not kinds:
            continue
        n += 1
        line = min((c.line for c in calls_), default=f.line)
        chk.ob("each-candidate-loose-then-packed", "find_one_with_verified_input candidate loop@%d" % line, kinds == {"loose", "packed"},
               "this loop over the candidate names looks only at %s references: an earlier candidate that exists only in the other store loses against a later one (packed refs/tags/v1 vs loose refs/heads/v1: git resolves the tag)" % sorted(kinds),
               "%s:%d" % (f.file, line), key="candidate-order|find_one_with_verified_input")
    chk.floor("find_one_with_verified_input: candidate loops with lookups", n, 1)


def candidate_prefix_rule(db, chk):
    """git's candidates for a short name are <n>, refs/<n>, refs/tags/<n>, refs/heads/<n>, refs/remotes/<n>, refs/remotes/<n>/HEAD: everything
    but the first lives in refs/.  construct_full_name_ref(inbetween) leaves `refs/` away for names that look like full names (HEAD, FETCH_HEAD,
    refs/..) - that may only affect the candidate without `inbetween`.  An all-uppercase tag or branch (RELEASE, STABLE) `looks like` a pseudo
    ref, and would otherwise be searched as <git-dir>/tags/RELEASE.  Structural form: the push of the constant `refs/` is reachable from the
    TRUE edge of looks_like_full_name() as well (through the test of `inbetween`), not only from its false edge."""
    f = db.one(r"^gix_ref::name::<impl gix_ref::PartialNameRef>::construct_full_name_ref$")
    fl = Flow(f)
    t = f.calls_to(r"::looks_like_full_name$")
    pushes = [c for c in f.calls() if c.is_(r"::push_str$|::extend_from_slice$") and len(c.args) > 1 and any(
        r[0] == "const" and r[1] in (b"refs/", "refs/") for r in fl.roots(c.args[1], stop_named=False))]
    chk.floor("construct_full_name_ref: looks_like_full_name test / push of `refs/`", min(len(t), len(pushes)), 1)
    if not t or not pushes:
        return
    e = fl.result_edges(t[0])
    tru = e["good"] or set()
    # bool result: good = true edge
    reach_true = set().union(*[f.reach_from(x) for _, x in tru]) if tru else set()
    uses_inbetween = any(any(r[0] == "arg" and r[1] == 2 for r in fl.roots(f.term(b)[1], stop_named=False)) for b in range(len(f.blocks)) if f.term(b)[0] == "switch" and "p" in f.term(b)[1])
    for p in pushes:
        chk.ob("later-candidates-live-in-refs", "construct_full_name_ref push(refs/)@%d" % p.line, p.block in reach_true and uses_inbetween,
               "`refs/` is prepended only when the name does not look like a full name, whatever `inbetween` is: for the short name RELEASE the candidates are RELEASE, tags/RELEASE, heads/RELEASE - refs/tags/RELEASE is never tried and the lookup fails although git resolves it",
               p.where(), key="candidate-prefix|construct_full_name_ref")


def prefix_semantics_agree_rule(db, chk):
    """prefixed iteration merges two sources that must understand the prefix alike.  The loose side decides by looking at the disk: a prefix
    that names a directory is walked as that directory (`refs/heads/a` == `refs/heads/a/`), otherwise its last component filters file names.
    The packed side filters by string prefix, so for the directory case it has to be given the prefix WITH the trailing slash - or packed
    refs/heads/ab shows up next to loose refs/heads/a/x while loose refs/heads/ac does not.  In iter_from_info the value handed to
    packed::Buffer::iter_prefixed depends on the IterInfo variant: a byte/str push onto it is control-dependent on a test of that variant."""
    from gx.flow import control_switches
    f = db.one(r"^gix_ref::store_impl::file::overlay_iter::<impl gix_ref::store_impl::file::Store>::iter_from_info$|^gix_ref::store_impl::file::overlay_iter::<impl gix_ref::file::Store>::iter_from_info$")
    fl = Flow(f)
    cs = f.calls_to(r"packed::iter::<impl gix_ref::store_impl::packed::Buffer>::iter_prefixed$|Buffer>::iter_prefixed$")
    chk.floor("iter_from_info: packed.iter_prefixed", len(cs), 1)
    info_locals = {i for i, t in enumerate(f.locals) if "overlay_iter::IterInfo" in t}
    for c in cs:
        ok = False
        for p in f.calls():
            if not p.is_(r"::push$|::push_byte$|::push_str$|::push_char$|::extend_from_slice$") or not f.dominates(p.block, c.block) and p.block not in f.reach_from(0):
                continue
            if c.block not in f.reach_from(p.block):
                continue
            for b in control_switches(f, p.block):
                t = f.term(b)
                # the switch operand derives from the discriminant of an IterInfo value
                seen, work = set(), [t[1]["p"][0]] if "p" in t[1] else []
                while work:
                    l = work.pop()
                    if l in seen:
                        continue
                    seen.add(l)
                    for b2, s2, pl2, rv2, ln2, mc2 in f.assigns():
                        if pl2 and pl2[0] == l:
                            if rv2[0] == "discr" and rv2[1] and (rv2[1][0] in info_locals or "IterInfo" in str(rv2[3])):
                                ok = True
                            for o in ([rv2[1]] if rv2[0] == "use" else [rv2[2]] if rv2[0] in ("cast", "un") else [rv2[2], rv2[3]] if rv2[0] == "bin" else []):
                                if isinstance(o, dict) and "p" in o and isinstance(o["p"][0], int):
                                    work.append(o["p"][0])
                            if rv2[0] == "use" and "p" not in rv2[1]:
                                # a materialised bool (`matches!`): the value depends on the switches that select this assignment
                                for b3 in control_switches(f, b2):
                                    t3 = f.term(b3)
                                    if "p" in t3[1] and isinstance(t3[1]["p"][0], int):
                                        work.append(t3[1]["p"][0])
        chk.ob("packed-prefix-follows-loose-mode", "iter_from_info iter_prefixed@%d" % c.line, ok,
               "the packed side always filters by the prefix as a string while the loose side walks a directory when the prefix names one: with loose refs/heads/a/x, packed refs/heads/ab and loose refs/heads/ac the prefix refs/heads/a yields a/x and ab",
               c.where(), key="prefix-semantics|iter_from_info")
