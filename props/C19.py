"""C19 Packed-refs lookup — sortedness typestate of packed::Buffer (CG/DOM), parse failures surface as errors."""
import re
from gx.flow import Flow, bool_switch_edges

TECHNIQUE = "ADT-construction census (who may build packed::Buffer) + cut-set: every path to the construction passes the `sorted` header test or the re-sort; binary search reachable only on such buffers; parse-failure flag provenance"
EXPLANATION = ("packed::Buffer is the only type binary_search_by runs on. The check requires that Buffer values are constructed only in "
               "open_with_backing, that there every path from entry to the construction either takes the `sorted == true` edge of a switch on the value "
               "read from the parsed header's `sorted` field or passes the sort_by_key re-serialisation whose key closure reads the record name; that "
               "the comparator closure of binary_search_by sets the parse-failure flag on a parse error, the flag is what the Err side returns, and "
               "try_find_full_name turns a set flag into Error::Parse. The byte-level bisection itself (record-start search) is a value property and is not decided.")
OW = r"^gix_ref::store_impl::packed::buffer::open::<impl gix_ref::store_impl::packed::Buffer>::open_with_backing$"


def run(db, chk):
    builders = sorted({f.name for f in db.by_crate["gix_ref"] for bi, si, pl, rv, ln, mc in f.assigns()
                       if rv[0] == "agg" and rv[1] == "adt" and rv[2] == "gix_ref::store_impl::packed::Buffer"})
    chk.floor("functions constructing packed::Buffer", len(builders), 1)
    ow = db.one(OW)
    chk.ob("buffer-built-only-when-sorted", "constructors of packed::Buffer", builders == [ow.name], "built in %s" % builders, "%s:%d" % (ow.file, ow.line), key="buffer-builders")
    fl = Flow(ow)
    cons = [bi for bi, si, pl, rv, ln, mc in ow.assigns() if rv[0] == "agg" and rv[1] == "adt" and rv[2] == "gix_ref::store_impl::packed::Buffer"]
    sorts = ow.calls_to(r"::sort_by_key$|::sort_by$|::sort$|::sort_unstable")
    chk.floor("re-sort call in open_with_backing", len(sorts), 1)
    # switch on `sorted`
    true_edges = set()
    sw_found = 0
    for bi in ow.reachable_blocks():
        t = ow.term(bi)
        if t[0] != "switch" or t[4] != "bool" or "p" not in t[1]:
            continue
        roots = fl.roots(t[1])
        if not any(r[0] == "var" and r[2] == "sorted" for r in roots):
            continue
        # polarity: count Not on the def chain of the operand
        nots = 0
        l = t[1]["p"][0]
        seen = set()
        while l not in seen:
            seen.add(l)
            nxt = None
            for (b2, s2, k2, p2) in fl.defs.get(l, []):
                if k2 == "a" and p2[1][0] == "un" and p2[1][1] == "Not":
                    nots += 1
                    nxt = p2[1][2]["p"][0] if "p" in p2[1][2] else None
                elif k2 == "a" and p2[1][0] == "use" and "p" in p2[1][1] and len(p2[1][1]["p"]) == 1:
                    nxt = p2[1][1]["p"][0]
            if nxt is None or ow.local_name(l) == "sorted":
                break
            l = nxt
        te, fe = bool_switch_edges(ow, bi, t[1]["p"][0])
        true_edges |= (fe if nots % 2 else te)
        sw_found += 1
    chk.floor("switch on the `sorted` flag", sw_found, 1)
    # an explicit order check of the parsed records (`windows(2).all(a <= b)`, is_sorted*) establishes the same fact as the header flag
    for c in ow.calls():
        if c.is_(r"Iterator>?::all$|::all$|::is_sorted(_by|_by_key)?$") and (c.is_(r"is_sorted") or fl.derives_from_call(c.args[0], r"::windows$")):
            true_edges |= fl.result_edges(c)["good"]
    ok = bool(cons) and fl.cut_off(cons, true_edges | set(), start=0) if not sorts else not (set(cons) & ow.reach_from(0, avoid={s.block for s in sorts}, avoid_edges=true_edges))
    chk.ob("buffer-built-only-when-sorted", "open_with_backing", ok, "Buffer can be constructed from unsorted content without passing the re-sort", "%s:%d" % (ow.file, ow.line), key="buffer-sorted-cutset")
    # provenance of `sorted`: header.sorted or the literal false
    sl = ow.locals_named("sorted")
    prov = set()
    for l in sl:
        for r in fl.roots(l, stop_named=False):
            prov.add(r[0] if r[0] != "const" else ("const", r[1]))
    srcs = {r for l in sl for r in fl.roots(l, stop_named=True) if r[0] == "var" and ".sorted" in r[3]} | {r for l in sl for r in fl.roots(l, stop_named=False) if r[0] == "call" and re.search(r"parse_next$", r[1])}
    chk.ob("sorted-flag-from-header", "open_with_backing", bool(srcs) and not any(r == ("const", 1) for r in prov), "`sorted` must come from the parsed header (or be false)", "%s:%d" % (ow.file, ow.line), key="sorted-flag-provenance")
    for s in sorts:
        clos = [g for g in db.closures_of(ow) if any(a.get("closure") == g.name or (("p" in a) and any(rv[0] == "agg" and rv[2] == g.name and pl[0] == a["p"][0] for bi, si, pl, rv, ln, mc in ow.assigns())) for a in s.args)]
        by_name = any(any(".name" in str(p) for st in g.blocks for x in st["s"] if x[0] == "a" for p in __import__("gx.facts", fromlist=["x"]).rvalue_places(x[2])) for g in clos)
        chk.ob("resort-by-name", "sort key closure reads .name", by_name, "", s.where(), key="resort-by-name")
        # the key is compared as BYTES (the order git, the binary search and the loose/packed merge use), not as a Path (component-wise)
        targs = s.callee.get("targs", "")
        key_ty = targs.split(",")[1].strip() if s.name.endswith("sort_by_key") and targs.count(",") >= 2 else targs
        bytes_key = bool(re.search(r"BStr|\[u8\]|BString|Vec<u8>", key_ty)) and not re.search(r"Path|OsStr|\bstr\b", key_ty)
        chk.ob("resort-compares-bytes", "sort key type %s" % key_ty, bytes_key,
               "the re-sort orders names as %s, not byte-wise: refs/heads/a/c would sort before refs/heads/a-b and the binary search misses existing references" % key_ty, s.where(), key="resort-compares-bytes")
    # (data, offset) pairing: the offset of the first record is the parsed header length exactly when the original backing is kept, and 0 when the
    # records were re-serialised without a header.  Either both come out of one tuple built per branch, or the two values are selected by the
    # same decision (the nearest common dominator of their definition sites switches on the same named flag).
    def deciders(op):
        l = op["p"][0]
        for _ in range(4):
            ds = [(b2, r2) for b2, s2, p2, r2, l2, m2 in ow.assigns() if p2 == [l]]
            if len(ds) == 1 and ds[0][1][0] == "use" and "p" in ds[0][1][1] and len(ds[0][1][1]["p"]) == 1:
                l = ds[0][1][1]["p"][0]
            else:
                break
        blocks = sorted({b2 for b2, s2, p2, r2, l2, m2 in ow.assigns() if p2[:1] == [l]} | {c.block for c in ow.calls() if c.dest and c.dest[0] == l})
        if len(blocks) < 2:
            return None, l
        idom = ow.idom()
        def chain(b):
            out = [b]
            while b in idom and idom[b] is not None and idom[b] != b:
                b = idom[b]; out.append(b)
            return out
        common = None
        for b in blocks:
            c = chain(b)
            common = c if common is None else [x for x in common if x in c]
        ncd = next((x for x in (common or []) if ow.term(x)[0] == "switch" and "p" in ow.term(x)[1] and x not in blocks), None)
        if ncd is None:
            return frozenset(), l
        names = set()
        for x in ow.reachable_blocks():
            t = ow.term(x)
            if t[0] != "switch" or "p" not in t[1] or not ow.dominates(ncd, x):
                continue
            doms = [b for b in blocks if ow.dominates(x, b) and x != b]
            if x == ncd or (doms and len(doms) < len(blocks)):
                nm = {ow.local_name(r[1]) or r[1] for r in fl.roots(t[1]) if r[0] in ("var", "arg")}
                # `?` and other compiler-made switches have no named condition: ignore them
                names |= {n for n in nm if isinstance(n, str)}
        return frozenset(names), l
    for bi, si, pl, rv, ln, mc in ow.assigns():
        if rv[0] == "agg" and rv[1] == "adt" and rv[2].endswith("packed::Buffer") and len(rv) > 5 and "offset" in rv[5] and "data" in rv[5]:
            off_op, data_op = rv[4][rv[5].index("offset")], rv[4][rv[5].index("data")]
            do, lo = deciders(off_op)
            dd, ld = deciders(data_op)
            # tuple form: both are fields of one local tuple
            same_tuple = False
            for op_a, op_b in ((off_op, data_op),):
                ra = {(r[1]) for r in fl.roots(op_a) if r[0] == "var"}
                rb = {(r[1]) for r in fl.roots(op_b) if r[0] == "var"}
            src_o = [r2 for b2, s2, p2, r2, l2, m2 in ow.assigns() if p2 == [lo] and r2[0] == "use" and "p" in r2[1] and len(r2[1]["p"]) == 2]
            src_d = [r2 for b2, s2, p2, r2, l2, m2 in ow.assigns() if p2 == [ld] and r2[0] == "use" and "p" in r2[1] and len(r2[1]["p"]) == 2]
            if src_o and src_d and {r2[1]["p"][0] for r2 in src_o} == {r2[1]["p"][0] for r2 in src_d}:
                same_tuple = True
            ok_ = same_tuple or (do is not None and dd is not None and do == dd and bool(do))
            chk.ob("offset-pairs-with-data", "open_with_backing: Buffer{data, offset}", ok_,
                   "`data` is selected by %s but `offset` by %s: when the original file is kept its header must be skipped (offset = header length), when the records are re-serialised the offset is 0 - decided together" % (sorted(map(str, dd or [])), sorted(map(str, do or []))),
                   "%s:%d" % (ow.file, ln), key="offset-pairs-with-data")
    # binary search parse failure
    bs = db.one(r"^gix_ref::store_impl::packed::find::<impl gix_ref::store_impl::packed::Buffer>::binary_search_by$")
    sets = False
    for g in db.closures_of(bs):
        for bi, si, pl, rv, ln, mc in g.assigns():
            if len(pl) > 1 and "*" in pl and rv[0] == "use" and rv[1].get("v") == 1 and rv[1].get("ty") == "bool":
                sets = True
    chk.ob("parse-failure-flagged", "binary_search_by closure sets the flag", sets, "", "%s:%d" % (bs.file, bs.line), key="parse-failure|set")
    tf = db.one(r"^gix_ref::store_impl::packed::find::<impl gix_ref::store_impl::packed::Buffer>::try_find_full_name$")
    perr = [bi for bi, si, pl, rv, ln, mc in tf.assigns() if rv[0] == "agg" and rv[3] == "Parse"]
    perr_clo = [g.name for g in db.closures_of(tf) for bi, si, pl, rv, ln, mc in g.assigns() if rv[0] == "agg" and rv[3] == "Parse"]
    chk.ob("parse-failure-flagged", "try_find_full_name builds Error::Parse", len(perr) >= 1 and len(perr_clo) >= 1, "expected Error::Parse on the flag (in the function) and on the final parse (map_err closure)", "%s:%d" % (tf.file, tf.line), key="parse-failure|report")
    # the Parse in the function body must sit on the true edge of a bool switch fed by the search's Err payload
    tfl = Flow(tf)
    guarded = False
    for bi in tf.reachable_blocks():
        t = tf.term(bi)
        if t[0] == "switch" and t[4] == "bool" and "p" in t[1] and tfl.derives_from_call(t[1], r"binary_search_by$"):
            te, fe = bool_switch_edges(tf, bi, t[1]["p"][0])
            rt = set().union(*[tf.reach_from(x) for _, x in te]) if te else set()
            rf = set().union(*[tf.reach_from(x) for _, x in fe]) if fe else set()
            if set(perr) & rt and not (set(perr) & rf):
                guarded = True
    chk.ob("parse-failure-flagged", "flag decides between Error::Parse and not-found", guarded, "", "%s:%d" % (tf.file, tf.line), key="parse-failure|edge")
    callers = sorted({f.name for f in db.by_crate["gix_ref"] for c in f.calls() if c.is_(r"packed::Buffer>::binary_search_by$")})
    chk.ob("search-only-on-buffer", "callers of binary_search_by", all("packed::" in c for c in callers) and bool(callers), "%s" % callers, key="search-callers")
