"""C20 Reference updates are crash-consistent — effect allow-list over the commit call graph (CG), ordering of effects (DOM)."""
import re
from gx.flow import Flow

TECHNIQUE = "who-may-call / effect allow-list over the call-graph closure of the commit functions, ordering rules on the CFG (reflog before ref, packed-refs commit before loose deletion, no effect after a failed packed commit)"
EXPLANATION = ("Over everything reachable inside gix-ref, gix-lock, gix-tempfile and gix-fs from file::Transaction::commit_inner and "
               "packed::Transaction::commit: the only file-system mutating std/tempfile calls are reflog append/create (OpenOptions::open in the reflog "
               "module), directory creation for reflogs, rename through tempfile persist (reached only via gix_lock commit -> Handle::persist), remove_file and "
               "empty-directory removal; no fs::write / File::create / fs::copy / direct fs::rename exists on a ref or packed-refs path. Ordering: in the "
               "update loop the reflog call cannot come after the lock commit of the same edit; deleting a loose ref file is unreachable without first "
               "passing the packed-transaction commit point, is unreachable from its Err edge, and the packed commit is unreachable after a deletion. "
               "Nothing in gix-tempfile's persist closure removes, renames or truncates the destination besides tempfile's own rename. The state after an actual crash depends on rename atomicity of the OS and is not decided.")
FS = re.compile(r"(^std::fs::(write|rename|remove_file|remove_dir|remove_dir_all|create_dir|create_dir_all|copy|hard_link|set_permissions|soft_link)$|"
                r"^std::fs::File::(create|create_new|set_len|options)$|fs::OpenOptions::open$|unix::fs::symlink$|^tempfile::.*::persist(_noclobber)?$|^tempfile::.*::keep$)")
# callee pattern -> functions allowed to call it (regex on caller name), with the reason
ALLOW = [
    (r"fs::OpenOptions::open$", r"gix_ref::store_impl::file::loose::reflog::create_or_update::<impl gix_ref::store_impl::file::Store>::reflog_create_or_append", "reflog append/create"),
    (r"^std::fs::create_dir$", r"gix_fs::dir::create::Iter", "race-proof creation of leading directories (reflog, lock)"),
    (r"^std::fs::remove_dir$", r"gix_fs::dir::remove::", "removal of empty directories"),
    (r"^std::fs::remove_file$", r"(^gix_ref::store_impl::(file|packed)::|gix_tempfile::)", "deleting refs/reflogs/empty packed-refs (ordering is decided separately), tempfile cleanup"),
    (r"^tempfile::.*::persist$", r"gix_tempfile::forksafe::ForksafeTempfile::persist_inner$", "lock commit = rename of the lock file"),
]
CI = r"transaction::commit::<impl gix_ref::store_impl::file::Transaction<'_, '_>>::commit_inner$"
PC = r"^gix_ref::store_impl::packed::transaction::<impl gix_ref::store_impl::packed::Transaction>::commit$"


def run(db, chk):
    persist_is_one_rename(db, chk)
    ci, pc = db.one(CI), db.one(PC)
    scope = {f.key for c in ("gix_ref", "gix_lock", "gix_tempfile", "gix_fs") for f in db.by_crate[c]}
    parent = db.reachable([ci.key, pc.key], stop=lambda n: n not in scope)
    inside = [db.fns[n] for n in parent if n in scope]
    chk.set("functions_in_commit_closure", len(inside))
    chk.floor("functions reachable from the commit entry points", len(inside), 100)
    neff = 0
    for f in inside:
        for c in f.calls():
            nm = c.name
            if not (FS.search(nm) or FS.search(c.path)):
                continue
            neff += 1
            rule = next(((cal, who, why) for cal, who, why in ALLOW if re.search(cal, nm)), None)
            ok = rule is not None and re.search(rule[1], f.name) is not None
            via = " -> ".join(x.split("::")[-1] for x in db.path_to(parent, f.key)[-4:])
            chk.ob("fs-effect-allow-list", "%s calls %s" % (f.name.split("::")[-1] if "::" in f.name else f.name, nm), ok,
                   ("allowed: " + rule[2]) if ok else "file-system mutation outside the allow-list (reached via %s)" % via, c.where(),
                   key="fs-effect|%s|%s" % (f.name, nm))
    chk.floor("file-system effects found on the commit path", neff, 6)
    # rename is reached only through gix_lock commit -> Handle::persist
    persist_callers = sorted({f.name for f in inside for c in f.calls() if c.is_(r"gix_tempfile::handle::persist::<impl gix_tempfile::Handle<.*>>::persist$")})
    chk.ob("rename-only-via-lock-commit", "callers of Handle::persist", bool(persist_callers) and all(re.match(r"gix_lock::commit::<impl gix_lock::(File|Marker)>::commit$", n) for n in persist_callers), str(persist_callers), key="rename-only-via-lock-commit")
    # ordering in commit_inner
    fl = Flow(ci)
    reflog = ci.calls_to(r"reflog_create_or_append$")
    commit_sites = [c for c in ci.calls() if any(a.get("fn", "").endswith("gix_lock::Marker>::commit") or a.get("fn", "").endswith("Marker::commit") for a in c.args) or c.is_(r"gix_lock::commit::<impl gix_lock::Marker>::commit$")]
    chk.floor("reflog_create_or_append call", len(reflog), 1)
    chk.floor("lock commit site (Marker::commit)", len(commit_sites), 1)
    loops = ci.loops()
    for r in reflog:
        hs = [l for l in loops if r.block in l["body"]]
        H = min(hs, key=lambda l: len(l["body"]))["header"] if hs else None
        for cs in commit_sites:
            after = r.block in ci.reach_from(cs.block, avoid={H} if H is not None else ())
            before = cs.block in ci.reach_from(r.block, avoid={H} if H is not None else ())
            chk.ob("reflog-before-ref", "commit_inner update loop", before and not after, "within one iteration the reflog append must precede the lock commit (reflog reachable after commit: %s)" % after, r.where(), key="reflog-before-ref")
    pcommit = ci.calls_to(r"packed::Transaction>::commit$")
    cg = db.callgraph()

    def reaches_remove(name, seen=None):
        seen = seen if seen is not None else set()
        if name in seen or not name.startswith(("gix_ref::", "<gix_ref::")):
            return False
        seen.add(name)
        f_ = db.fns.get(name)
        if f_ is None:
            return False
        if any(c.is_(r"^std::fs::remove_file$") for c in f_.calls()):
            return True
        return any(reaches_remove(n, seen) for n in cg.get(name, ()))

    def is_reflog(c):
        return any(fl.derives_from_call(a, r"reflog_base_and_relative_path$|::reflog_path") for a in c.args) or any(any(r[0] == "var" and "reflog" in r[2] for r in fl.roots(a)) for a in c.args)

    dels = [c for c in ci.calls() if (c.is_(r"^std::fs::remove_file$") or reaches_remove(c.name)) and not is_reflog(c) and not c.is_(r"reflog_create_or_append$|packed::Transaction>::commit$")]
    chk.floor("packed transaction commit call", len(pcommit), 1)
    chk.floor("loose reference deletion", len(dels), 1)
    for p in pcommit:
        # the test of self.packed_transaction that guards the call: deletions must be unreachable without passing its block
        guards = [bi for bi in ci.reachable_blocks() if ci.switch_variants(bi) and any(x[0] == "arg" and ".packed_transaction" in x[2] for x in fl.roots(ci.switch_variants(bi)["place"], stop_named=False))]
        chk.floor("switch on self.packed_transaction", len(guards), 1)
        for d in dels:
            ok = d.block not in ci.reach_from(0, avoid=set(guards))
            chk.ob("packed-commit-before-loose-deletion", "commit_inner", ok, "a loose ref can be deleted before the packed-refs commit point", d.where(), key="packed-before-delete")
            chk.ob("packed-commit-before-loose-deletion", "no commit after deletion", p.block not in ci.reach_from(d.block), "", d.where(), key="no-commit-after-delete")
        e = fl.result_edges(p)
        rb = set()
        for (_, t) in e["bad"]:
            rb |= ci.reach_from(t)
        chk.ob("failed-packed-commit-stops", "commit_inner", bool(e["bad"]) and not any(d.block in rb for d in dels), "loose refs are deleted although committing packed-refs failed", p.where(), key="failed-packed-commit-stops")
    # packed commit: content written only through the lock file, then committed
    pfl = Flow(pc)
    wm = pc.calls_to(r"gix_lock::file::<impl gix_lock::File>::with_mut$")
    fin = pc.calls_to(r"gix_lock::commit::<impl gix_lock::File>::commit$")
    chk.floor("packed-refs writes through the lock file", len(wm), 3)
    # every record copied over is counted: the file is removed iff nothing was written
    cnt = pc.locals_named("num_written_lines")
    chk.floor("num_written_lines counter", len(cnt), 1)
    incs = {bi for bi, si, pl, rv, ln, mc in pc.assigns() if len(pl) == 1 and pl[0] in cnt and rv[0] in ("use", "bin") and any(isinstance(x, dict) and "p" in x and x["p"][0] != pl[0] or True for x in [rv]) and
            (rv[0] == "use" and "p" in rv[1] and any(k == "a" and p2[1][0] == "bin" and p2[1][1].startswith("Add") for (b2, s2, k, p2) in pfl.defs.get(rv[1]["p"][0], [])))}
    loops_ = pc.loops()
    nplain = 0
    for w in wm:
        clo = None
        for a in w.args:
            if "p" in a:
                for (b2, s2, k, p2) in pfl.defs.get(a["p"][0], []):
                    if k == "a" and p2[1][0] == "agg" and p2[1][1] == "closure":
                        clo = (p2[1][2], p2[1][4])
        if clo is None:
            continue
        body = db.fns.get(clo[0])
        if body is None:
            continue
        if body.calls_to(r"packed::transaction::write_edit$"):
            captures = any(any(r[0] == "var" and r[2] == "num_written_lines" for r in pfl.roots(o)) for o in clo[1])
            chk.ob("written-records-are-counted", "write_edit closure@%d captures the counter" % w.line, captures, "", w.where(), key="counted|write_edit")
        elif body.calls_to(r"packed::transaction::write_packed_ref$"):
            nplain += 1
            hs = [l for l in loops_ if w.block in l["body"]]
            H = min(hs, key=lambda l: len(l["body"]))["header"] if hs else 0
            before = w.block not in pc.reach_from(H, avoid=incs)
            after = H not in pc.reach_from(w.target, avoid=incs) if w.target is not None else False
            chk.ob("written-records-are-counted", "write_packed_ref@%d" % w.line, before or after,
                   "an existing packed ref is copied to the new file without counting it: if nothing else is written the new packed-refs is discarded and every ref in it is lost", w.where(), key="counted|write_packed_ref")
    chk.floor("plain copies of existing packed refs", nplain, 2)
    rm = pc.calls_to(r"^std::fs::remove_file$")
    from gx.flow import comparisons, bool_switch_edges
    zero_edges = set()
    for cmp in comparisons(pc):
        if cmp["op"] == "Eq" and any("p" in cmp[s_] and any(r[0] == "var" and r[2] == "num_written_lines" for r in pfl.roots(cmp[s_])) for s_ in ("a", "b")) and any(cmp[s_].get("v") == 0 for s_ in ("a", "b")):
            e = bool_switch_edges(pc, cmp["block"], cmp["res"])
            if e:
                zero_edges |= e[0]
    chk.ob("packed-refs-removed-only-when-empty", "packed::Transaction::commit", bool(rm) and bool(zero_edges) and pfl.cut_off([c.block for c in rm], zero_edges), "", "%s:%d" % (pc.file, pc.line), key="remove-only-when-empty")
    chk.ob("packed-written-then-committed", "packed::Transaction::commit", len(fin) == 1 and all(fin[0].block in pc.reach_from(w.block) and w.block not in pc.reach_from(fin[0].block) for w in wm), "", "%s:%d" % (pc.file, pc.line), key="packed-written-then-committed")


def persist_is_one_rename(db, chk):
    """every lock commit (loose refs, packed-refs) ends in ForksafeTempfile::persist -> tempfile's persist = ONE rename(2) onto the destination.
    Old-or-new at every crash point needs exactly that: nothing in gix_tempfile's persist path removes or truncates the destination first
    (`unlink then rename` leaves a window in which the ref is missing or its stale packed value shows).  Zero-expected over the call-graph
    closure of persist/persist_inner inside gix-tempfile, with a positive control for the pattern elsewhere in the crate."""
    REMOVE = r"fs::remove_file$|fs::remove_dir\w*$|fs::rename$|File::set_len$|OpenOptions::truncate$|fs::write$|File::create$"
    roots = [f for f in db.by_crate["gix_tempfile"] if f.kind != "promoted" and re.search(r"forksafe::ForksafeTempfile::persist(_inner)?$|Handle<.*>>::persist$", f.name)]
    chk.floor("gix_tempfile persist functions", len(roots), 2)
    in_tf = lambda n: n.startswith("gix_tempfile::") or n.startswith("<gix_tempfile::")
    reach = db.reachable([f.key for f in roots], stop=lambda n: not in_tf(n))
    fns = [db.fns[n] for n in reach if n in db.fns and in_tf(db.fns[n].name)]
    ctl = sum(1 for f in db.by_crate["gix_tempfile"] for c in f.calls() if c.is_(REMOVE))
    chk.floor("control: remove_file/rename recognised in gix_tempfile (cleanup paths)", ctl, 1)
    hits = [(f, c) for f in fns for c in f.calls() if c.is_(REMOVE) and "drop" not in f.name.lower()]
    for f, c in hits:
        chk.ob("persist-is-a-single-rename", "%s %s@%d" % (f.name.split("::")[-1], c.name.split("::")[-1], c.line), False,
               "the persist path touches the file system besides tempfile's rename: with `unlink destination, then rename` a crash in between loses the old value (ref missing / stale packed value)",
               c.where(), key="persist-rename|%s|%s" % (f.name.split("::")[-1], c.name.split("::")[-1]))
    if not hits:
        chk.ob("persist-is-a-single-rename", "gix_tempfile persist closure (%d functions)" % len(fns), True)
