"""C20 Reference updates are crash-consistent — effect allow-list over the commit call graph (CG), ordering of effects (DOM)."""
import re
from gx.flow import Flow

TECHNIQUE = "who-may-call / effect allow-list over the call-graph closure of the commit functions, ordering rules on the CFG (reflog before ref, packed-refs commit before loose deletion, no effect after a failed packed commit)"
EXPLANATION = ("Over everything reachable inside gix-ref, gix-lock, gix-tempfile and gix-fs from file::Transaction::commit_inner and "
               "packed::Transaction::commit: the only file-system mutating std/tempfile calls are reflog append/create (OpenOptions::open in the reflog "
               "module), directory creation for reflogs, rename through tempfile persist (reached only via gix_lock commit -> Handle::persist), remove_file and "
               "empty-directory removal; no fs::write / File::create / fs::copy / direct fs::rename exists on a ref or packed-refs path. Ordering: in the "
               "update loop the reflog call cannot come after the lock commit of the same edit; deleting a loose ref file is unreachable without first "
               "passing the packed-transaction commit point, is unreachable from its Err edge, and the packed commit is unreachable after a deletion. "
               "The state after an actual crash depends on rename atomicity of the OS and is not decided.")
FS = re.compile(r"(^std::fs::(write|rename|remove_file|remove_dir|remove_dir_all|create_dir|create_dir_all|copy|hard_link|set_permissions|soft_link)$|"
                r"^std::fs::File::(create|create_new|set_len|options)$|fs::OpenOptions::open$|unix::fs::symlink$|^tempfile::.*::persist(_noclobber)?$|^tempfile::.*::keep$)")
# callee pattern -> functions allowed to call it (regex on caller name), with the reason
ALLOW = [
    (r"fs::OpenOptions::open$", r"gix_ref::store_impl::file::loose::reflog::create_or_update::<impl gix_ref::store_impl::file::Store>::reflog_create_or_append", "reflog append/create"),
    (r"^std::fs::create_dir$", r"gix_fs::dir::create::Iter", "race-proof creation of leading directories (reflog, lock)"),
    (r"^std::fs::remove_dir$", r"gix_fs::dir::remove::", "removal of empty directories"),
    (r"^std::fs::remove_file$", r"(transaction::commit::<impl gix_ref::store_impl::file::Transaction<'_, '_>>::commit_inner$|packed::transaction::<impl gix_ref::store_impl::packed::Transaction>::commit$|gix_tempfile::)", "deleting refs/reflogs/empty packed-refs, tempfile cleanup"),
    (r"^tempfile::.*::persist$", r"gix_tempfile::forksafe::ForksafeTempfile::persist_inner$", "lock commit = rename of the lock file"),
]
CI = r"transaction::commit::<impl gix_ref::store_impl::file::Transaction<'_, '_>>::commit_inner$"
PC = r"^gix_ref::store_impl::packed::transaction::<impl gix_ref::store_impl::packed::Transaction>::commit$"


def run(db, chk):
    ci, pc = db.one(CI), db.one(PC)
    scope = {f.key for c in ("gix_ref", "gix_lock", "gix_tempfile", "gix_fs") for f in db.by_crate[c]}
    parent = db.reachable([ci.key, pc.key], stop=lambda n: n not in scope)
    inside = [db.fns[n] for n in parent if n in scope]
    chk.set("functions_in_commit_closure", len(inside))
    chk.floor("functions reachable from the commit entry points", len(inside), 100)
    neff = 0
    for f in inside:
        for c in f.calls():
            nm = c.name
            if not (FS.search(nm) or FS.search(c.path)):
                continue
            neff += 1
            rule = next(((cal, who, why) for cal, who, why in ALLOW if re.search(cal, nm)), None)
            ok = rule is not None and re.search(rule[1], f.name) is not None
            via = " -> ".join(x.split("::")[-1] for x in db.path_to(parent, f.key)[-4:])
            chk.ob("fs-effect-allow-list", "%s calls %s" % (f.name.split("::")[-1] if "::" in f.name else f.name, nm), ok,
                   ("allowed: " + rule[2]) if ok else "file-system mutation outside the allow-list (reached via %s)" % via, c.where(),
                   key="fs-effect|%s|%s" % (f.name, nm))
    chk.floor("file-system effects found on the commit path", neff, 6)
    # rename is reached only through gix_lock commit -> Handle::persist
    persist_callers = sorted({f.name for f in inside for c in f.calls() if c.is_(r"gix_tempfile::handle::persist::<impl gix_tempfile::Handle<.*>>::persist$")})
    chk.ob("rename-only-via-lock-commit", "callers of Handle::persist", bool(persist_callers) and all(re.match(r"gix_lock::commit::<impl gix_lock::(File|Marker)>::commit$", n) for n in persist_callers), str(persist_callers), key="rename-only-via-lock-commit")
    # ordering in commit_inner
    fl = Flow(ci)
    reflog = ci.calls_to(r"reflog_create_or_append$")
    commit_sites = [c for c in ci.calls() if any(a.get("fn", "").endswith("gix_lock::Marker>::commit") or a.get("fn", "").endswith("Marker::commit") for a in c.args) or c.is_(r"gix_lock::commit::<impl gix_lock::Marker>::commit$")]
    chk.floor("reflog_create_or_append call", len(reflog), 1)
    chk.floor("lock commit site (Marker::commit)", len(commit_sites), 1)
    loops = ci.loops()
    for r in reflog:
        hs = [l for l in loops if r.block in l["body"]]
        H = min(hs, key=lambda l: len(l["body"]))["header"] if hs else None
        for cs in commit_sites:
            after = r.block in ci.reach_from(cs.block, avoid={H} if H is not None else ())
            before = cs.block in ci.reach_from(r.block, avoid={H} if H is not None else ())
            chk.ob("reflog-before-ref", "commit_inner update loop", before and not after, "within one iteration the reflog append must precede the lock commit (reflog reachable after commit: %s)" % after, r.where(), key="reflog-before-ref")
    pcommit = ci.calls_to(r"packed::Transaction>::commit$")
    dels = [c for c in ci.calls_to(r"^std::fs::remove_file$") if fl.derives_from_call(c.args[0], r"::reference_path$")]
    chk.floor("packed transaction commit call", len(pcommit), 1)
    chk.floor("loose reference deletion", len(dels), 1)
    for p in pcommit:
        # the test of self.packed_transaction that guards the call: deletions must be unreachable without passing its block
        guards = [bi for bi in ci.reachable_blocks() if ci.switch_variants(bi) and any(x[0] == "arg" and ".packed_transaction" in x[2] for x in fl.roots(ci.switch_variants(bi)["place"], stop_named=False))]
        chk.floor("switch on self.packed_transaction", len(guards), 1)
        for d in dels:
            ok = d.block not in ci.reach_from(0, avoid=set(guards))
            chk.ob("packed-commit-before-loose-deletion", "commit_inner", ok, "a loose ref can be deleted before the packed-refs commit point", d.where(), key="packed-before-delete")
            chk.ob("packed-commit-before-loose-deletion", "no commit after deletion", p.block not in ci.reach_from(d.block), "", d.where(), key="no-commit-after-delete")
        e = fl.result_edges(p)
        rb = set()
        for (_, t) in e["bad"]:
            rb |= ci.reach_from(t)
        chk.ob("failed-packed-commit-stops", "commit_inner", bool(e["bad"]) and not any(d.block in rb for d in dels), "loose refs are deleted although committing packed-refs failed", p.where(), key="failed-packed-commit-stops")
    # packed commit: content written only through the lock file, then committed
    pfl = Flow(pc)
    wm = pc.calls_to(r"gix_lock::file::<impl gix_lock::File>::with_mut$")
    fin = pc.calls_to(r"gix_lock::commit::<impl gix_lock::File>::commit$")
    chk.floor("packed-refs writes through the lock file", len(wm), 3)
    chk.ob("packed-written-then-committed", "packed::Transaction::commit", len(fin) == 1 and all(fin[0].block in pc.reach_from(w.block) and w.block not in pc.reach_from(fin[0].block) for w in wm), "", "%s:%d" % (pc.file, pc.line), key="packed-written-then-committed")
