"""C22 Lock files — byte-preserving lock path (FLOW no-lossy), exact-path creation, cleanup on drop (CG)."""
import re
from gx.flow import Flow

TECHNIQUE = "who-may-call / effect rule over the call graph (no lossy string conversion on the lock-path data path), constant-argument and provenance checks, Drop reachability"
EXPLANATION = ("Decides on the MIR of gix-lock and gix-tempfile: (1) no function of gix-lock outside fmt impls calls a lossy string "
               "conversion (to_string_lossy / from_utf8_lossy / into_string_lossy), so the lock path is derived from the resource path byte for "
               "byte; the lock path handed to the creation callback and returned is the result of add_lock_suffix(resource), whose extension "
               "argument derives from the resource's own extension and the DOT_LOCK_SUFFIX item; resource_path() is strip_lock_suffix(lock_path); "
               "(2) Handle::at_path asks the tempfile builder for zero random bytes (exact path) and creates through tempfile_in (exclusive create "
               "is the tempfile crate's contract); (3) Drop for Handle<T> removes the registry entry and reaches AutoRemove::execute_best_effort -> "
               "empty_upward_until_boundary; File/Marker commit persist onto resource_path(). strip_lock_suffix removes the suffix once (no trim_*_matches/replace) and demands UTF-8 of the extension only; a boundary handed to the cleanup derives from current_dir()/absolute() somewhere in gix-tempfile. Cross-process exclusivity and schedules are not decided.")
LOSSY = r"(::to_string_lossy$|::from_utf8_lossy$|::into_string_lossy$|::from_utf8_lossy_owned$)"


def run(db, chk):
    boundary_rule(db, chk)
    # positive control: the pattern must still be able to match something in the workspace
    alive = sum(1 for f in db.by_crate["gix_path"] + db.by_crate["gix"] for c in f.calls() if c.is_(LOSSY))
    chk.floor("lossy-conversion pattern matches somewhere in the workspace (positive control)", alive, 1)
    fns = [f for f in db.by_crate["gix_lock"] if f.kind != "promoted"]
    chk.floor("gix_lock functions", len(fns), 30)
    n = 0
    for f in fns:
        if re.search(r"(fmt::Display|fmt::Debug|core::error::Error)", f.name) or (f.trait_item or "").startswith("core::fmt::"):
            continue
        n += 1
        for c in f.calls():
            if c.is_(LOSSY):
                chk.ob("no-lossy-conversion-on-lock-path", f.name, False, "calls %s" % c.name, c.where(), key="no-lossy|%s|%s" % (f.name, c.name.split("::")[-1]))
    chk.set("gix_lock_functions_scanned", n)
    if not any(o["rule"] == "no-lossy-conversion-on-lock-path" for o in chk.obligations):
        chk.ob("no-lossy-conversion-on-lock-path", "gix_lock (%d functions)" % n, True)
    # lock path provenance
    lw = db.one(r"^gix_lock::acquire::lock_with_mode$")
    fl = Flow(lw)
    adds = lw.calls_to(r"acquire::add_lock_suffix$")
    chk.floor("add_lock_suffix call in lock_with_mode", len(adds), 1)
    if adds:
        chk.ob("lock-path-from-resource", "lock_with_mode", any(r[0] == "arg" and r[1] == 1 for r in fl.roots(adds[0].args[0], stop_named=False)), "add_lock_suffix must be applied to the resource parameter", adds[0].where(), key="lock-path-from-resource")
        ind = [c for c in lw.calls() if "ind" in c.callee or c.is_(r"ops::function::Fn::call$")]
        chk.floor("try_lock invocations", len(ind), 2)
        for i, c in enumerate(ind):
            ok = any(fl.derives_from_call(a, r"add_lock_suffix$") for a in c.args)
            chk.ob("try-lock-gets-lock-path", "lock_with_mode try_lock #%d" % i, ok, "creation callback must receive add_lock_suffix(resource)", c.where(), key="try-lock-gets-lock-path|%d" % i)
    als = db.one(r"^gix_lock::acquire::add_lock_suffix$")
    afl = Flow(als)
    we = als.calls_to(r"Path::with_extension$")
    chk.floor("with_extension in add_lock_suffix", len(we), 1)
    if we:
        ok = any(r[0] == "arg" and r[1] == 1 for r in afl.roots(we[0].args[0], stop_named=False)) and afl.derives_from_call(we[0].args[1], r"Path::extension$")
        chk.ob("suffix-appended-to-own-extension", "add_lock_suffix", ok, "with_extension must be applied to the resource with an extension derived from resource.extension()", we[0].where(), key="suffix-appended-to-own-extension")
    uses = db.const_uses(["gix_lock"]).get("gix_lock::DOT_LOCK_SUFFIX", [])
    clo = {re.sub(r"::\{promoted#\d+\}$", "", f.name) for f, bi, ctx in uses}
    fam = {als.name} | {c.name for c in db.closures_of(als)}
    chk.ob("suffix-constant", "add_lock_suffix (or its closures) builds the extension from DOT_LOCK_SUFFIX", bool(fam & clo), "users of the constant: %s" % sorted(clo), key="suffix-constant")
    c = db.const("gix_lock::DOT_LOCK_SUFFIX")
    chk.ob("spec-constant", "DOT_LOCK_SUFFIX", bytes.fromhex(c["bytes"]) == b".lock", "", "%s:%d" % (c["file"], c["line"]), key="spec-constant|DOT_LOCK_SUFFIX")
    strip_rule(db, chk)
    boundary_absolute_rule(db, chk)
    for rp in db.find(r"^gix_lock::file::<impl gix_lock::(File|Marker)>::resource_path$"):
        chk.ob("resource-is-stripped-lock-path", rp.name, bool(rp.calls_to(r"file::strip_lock_suffix$")), "", "%s:%d" % (rp.file, rp.line), key="resource-is-stripped|%s" % rp.name)
    commits = db.find(r"^gix_lock::commit::<impl gix_lock::(File|Marker)>::commit$")
    chk.floor("commit functions", len(commits), 2)
    for cm in commits:
        cfl = Flow(cm)
        ps = cm.calls_to(r"::persist$")
        ok = bool(ps) and all(cfl.derives_from_call(p.args[1], r"::resource_path$") for p in ps)
        chk.ob("commit-persists-onto-resource", cm.name, ok, "persist target must be resource_path()", "%s:%d" % (cm.file, cm.line), key="commit-persists-onto-resource|%s" % cm.name)
    # exact path creation
    ap = db.one(r"^gix_tempfile::handle::<impl gix_tempfile::Handle<\(\)>>::at_path$")
    apf = Flow(ap)
    rb = ap.calls_to(r"tempfile::Builder::<'a, 'b>::rand_bytes$|Builder.*::rand_bytes$")
    chk.floor("rand_bytes call in at_path", len(rb), 1)
    for c_ in rb:
        chk.ob("exact-path", "at_path rand_bytes", c_.args[1].get("v") == 0, "rand_bytes(%s)" % c_.args[1].get("v"), c_.where(), key="exact-path|rand_bytes")
    ti = ap.calls_to(r"::tempfile_in$")
    chk.ob("exclusive-create", "at_path tempfile_in", len(ti) == 1 and not ap.calls_to(r"fs::File::create$|OpenOptions"), "file must be created via Builder::tempfile_in only", "%s:%d" % (ap.file, ap.line), key="exclusive-create")
    pre = ap.calls_to(r"Builder.*::prefix$")
    chk.ob("exact-path", "at_path prefix from file_stem", bool(pre) and any(apf.derives_from_call(p.args[1], r"Path::file_stem$") for p in pre), "", "%s:%d" % (ap.file, ap.line), key="exact-path|prefix")
    # Drop
    drops = [f for f in db.by_crate["gix_tempfile"] if f.trait_item == "core::ops::drop::Drop::drop" and (f.self_ty or "").startswith("gix_tempfile::Handle<")]
    chk.floor("Drop for Handle<T>", len(drops), 1)
    for d in drops:
        rem = [c for c in d.calls() if re.search(r"::remove$", c.name)]
        chk.ob("drop-removes-registry-entry", d.name, bool(rem), "", "%s:%d" % (d.file, d.line), key="drop-removes-registry-entry")
        reach = db.reachable([d.key])
        need = ["gix_tempfile::forksafe::ForksafeTempfile::drop_impl", "gix_tempfile::AutoRemove::execute_best_effort", "gix_fs::dir::remove::empty_upward_until_boundary"]
        for nm in need:
            chk.ob("drop-reaches-cleanup", "%s -> %s" % (d.name.split("::")[-3], nm.split("::")[-1]), nm in reach, "not reachable in the call graph", "%s:%d" % (d.file, d.line), key="drop-reaches-cleanup|%s" % nm)


def boundary_rule(db, chk):
    """dropping a lock removes the directories it created only up to the boundary: gix_fs::dir::remove::Iter::next recognises the boundary by PATH
    equality (component-wise: `store/`, `store/.` and `store` are one directory), like Iter::new validates it - not by comparing the raw strings."""
    f = db.one(r"gix_fs::dir::remove::Iter<.a> as core::iter::traits::iterator::Iterator>::next$")
    fl = Flow(f)
    cmps = [c for c in f.calls() if c.is_(r"cmp::PartialEq(<.*>)?>?::(eq|ne)$|iter::traits::iterator::Iterator::(eq|ne)$|Iterator>?::(eq|ne)$") and len(c.args) == 2
            and any(any(r[0] == "arg" and ".boundary" in r[2] for r in fl.roots(a, stop_named=False)) for a in c.args)]
    chk.floor("remove::Iter::next: comparison with the boundary", len(cmps), 1)
    for c in cmps:
        tys = [f.locals[a["p"][0]] if "p" in a and isinstance(a["p"][0], int) else "" for a in c.args]
        ok = all(re.search(r"std::path::(Path(Buf)?|Components(<.*>)?)$", t.replace("&", "").replace("mut ", "").strip()) for t in tys)
        chk.ob("boundary-compared-as-path", "remove::Iter::next", ok, "the boundary is compared as %s: a boundary spelled `dir/` or `dir/.` is not recognised and the boundary directory itself (and empty ancestors) are removed" % tys,
               c.where(), key="boundary-compared-as-path")


REPEATED = r"::trim_end_matches$|::trim_matches$|::trim_start_matches$|::trim_right_matches$|::replace$|::replacen$|::rsplit$|::rsplitn$|::trim_end$|::trim$"


def strip_rule(db, chk):
    """commit() renames the lock file onto strip_lock_suffix(lock path), so that function has to invert add_lock_suffix exactly: (a) it removes the
    suffix ONCE - no trim_*_matches/replace on the name, which would turn `Cargo.lock.lock` into `Cargo`; (b) it may demand UTF-8 only of the
    extension (which is our own ASCII `lock` behind the last dot): every OsStr::to_str in it is applied to a value that derives from
    Path::extension(), never to the file name or the whole path, or non-UTF-8 resource names panic in resource_path()/commit()."""
    f = db.one(r"^gix_lock::file::strip_lock_suffix$")
    fam = [f] + list(db.closures_of(f))
    ctl = sum(1 for crate in ("gix_path", "gix_url", "gix_ref", "gix_config", "gix_glob", "gix_attributes", "gix") for g in db.by_crate.get(crate, []) for c in g.calls() if c.is_(REPEATED))
    chk.floor("control: repeated-strip string functions recognised elsewhere in the workspace", ctl, 1)
    bad = [(g, c) for g in fam for c in g.calls() if c.is_(REPEATED)]
    for g, c in bad:
        chk.ob("lock-suffix-stripped-once", "strip_lock_suffix %s@%d" % (c.name.split("::")[-1], c.line), False,
               "removes every repetition of the pattern: a resource that itself ends in `.lock` is committed to a different file (Cargo.lock.lock -> Cargo)", c.where(), key="strip-once|%s" % c.name.split("::")[-1])
    if not bad:
        chk.ob("lock-suffix-stripped-once", "strip_lock_suffix (no repeated-strip call)", True)
    n = 0
    for g in fam:
        gfl = Flow(g)
        for c in g.calls():
            if c.is_(r"OsStr::to_str$|Path::to_str$|::to_str$|::into_string$|str::from_utf8$") and c.args:
                n += 1
                ok = gfl.derives_from_call(c.args[0], r"Path::extension$") and not gfl.derives_from_call(c.args[0], r"Path::file_name$|Path::file_stem$")
                chk.ob("utf8-demanded-of-extension-only", "strip_lock_suffix %s@%d" % (c.name.split("::")[-1], c.line), ok,
                       "a UTF-8 conversion that can fail is applied to more than the extension: resource names with invalid UTF-8 panic when the lock is committed",
                       c.where(), key="strip-utf8|%s" % c.name.split("::")[-1])
    chk.set("strip_lock_suffix_utf8_conversions", n)


ABSOLUTISE = r"env::current_dir$|path::absolute$|fs::canonicalize$|Path::canonicalize$|realpath"


def boundary_absolute_rule(db, chk):
    """the tempfile crate turns a relative directory into an absolute path when it creates the file, and cleanup removes parent directories only
    while `directory.starts_with(boundary)` holds.  A relative boundary never is a prefix of an absolute path, so for relative resource paths no
    directory created for the lock would ever be removed.  Somewhere in gix-tempfile the boundary therefore has to be made absolute in the same
    way: a value that derives from current_dir()/absolute()/canonicalize() flows into AutoRemove::TempfileAndEmptyParentDirectoriesUntil or
    into the boundary argument of empty_upward_until_boundary."""
    hits = []
    n = 0
    for f in db.by_crate["gix_tempfile"]:
        if f.kind == "promoted":
            continue
        fl = None
        for bi, si, pl, rv, ln, mc in f.assigns():
            if rv[0] == "agg" and rv[1] == "adt" and rv[3] == "TempfileAndEmptyParentDirectoriesUntil" and rv[4]:
                n += 1
                fl = fl or Flow(f)
                if fl.derives_from_call(rv[4][0], ABSOLUTISE):
                    hits.append("%s:%d" % (f.name.split("::")[-1], ln))
        for c in f.calls_to(r"remove_dir::empty_upward_until_boundary$"):
            n += 1
            fl = fl or Flow(f)
            if len(c.args) > 1 and fl.derives_from_call(c.args[1], ABSOLUTISE):
                hits.append("%s:%d" % (f.name.split("::")[-1], c.line))
    chk.floor("gix_tempfile: constructions/uses of the cleanup boundary", n, 1)
    chk.ob("cleanup-boundary-made-absolute", "gix_tempfile (%d construction/use site(s))" % n, bool(hits),
           "no boundary directory handed to the cleanup derives from current_dir()/absolute(): with a relative resource path the tempfile's path is absolute, `starts_with(boundary)` fails and the directories created for the lock are left behind",
           key="boundary-absolute|gix_tempfile")
