"""C22 Lock files — byte-preserving lock path (FLOW no-lossy), exact-path creation, cleanup on drop (CG)."""
import re
from gx.flow import Flow

TECHNIQUE = "who-may-call / effect rule over the call graph (no lossy string conversion on the lock-path data path), constant-argument and provenance checks, Drop reachability"
EXPLANATION = ("Decides on the MIR of gix-lock and gix-tempfile: (1) no function of gix-lock outside fmt impls calls a lossy string "
               "conversion (to_string_lossy / from_utf8_lossy / into_string_lossy), so the lock path is derived from the resource path byte for "
               "byte; the lock path handed to the creation callback and returned is the result of add_lock_suffix(resource), whose extension "
               "argument derives from the resource's own extension and the DOT_LOCK_SUFFIX item; resource_path() is strip_lock_suffix(lock_path); "
               "(2) Handle::at_path asks the tempfile builder for zero random bytes (exact path) and creates through tempfile_in (exclusive create "
               "is the tempfile crate's contract); (3) Drop for Handle<T> removes the registry entry and reaches AutoRemove::execute_best_effort -> "
               "empty_upward_until_boundary; File/Marker commit persist onto resource_path(). Cross-process exclusivity and schedules are not decided.")
LOSSY = r"(::to_string_lossy$|::from_utf8_lossy$|::into_string_lossy$|::from_utf8_lossy_owned$)"


def run(db, chk):
    boundary_rule(db, chk)
    # positive control: the pattern must still be able to match something in the workspace
    alive = sum(1 for f in db.by_crate["gix_path"] + db.by_crate["gix"] for c in f.calls() if c.is_(LOSSY))
    chk.floor("lossy-conversion pattern matches somewhere in the workspace (positive control)", alive, 1)
    fns = [f for f in db.by_crate["gix_lock"] if f.kind != "promoted"]
    chk.floor("gix_lock functions", len(fns), 30)
    n = 0
    for f in fns:
        if re.search(r"(fmt::Display|fmt::Debug|core::error::Error)", f.name) or (f.trait_item or "").startswith("core::fmt::"):
            continue
        n += 1
        for c in f.calls():
            if c.is_(LOSSY):
                chk.ob("no-lossy-conversion-on-lock-path", f.name, False, "calls %s" % c.name, c.where(), key="no-lossy|%s|%s" % (f.name, c.name.split("::")[-1]))
    chk.set("gix_lock_functions_scanned", n)
    if not any(o["rule"] == "no-lossy-conversion-on-lock-path" for o in chk.obligations):
        chk.ob("no-lossy-conversion-on-lock-path", "gix_lock (%d functions)" % n, True)
    # lock path provenance
    lw = db.one(r"^gix_lock::acquire::lock_with_mode$")
    fl = Flow(lw)
    adds = lw.calls_to(r"acquire::add_lock_suffix$")
    chk.floor("add_lock_suffix call in lock_with_mode", len(adds), 1)
    if adds:
        chk.ob("lock-path-from-resource", "lock_with_mode", any(r[0] == "arg" and r[1] == 1 for r in fl.roots(adds[0].args[0], stop_named=False)), "add_lock_suffix must be applied to the resource parameter", adds[0].where(), key="lock-path-from-resource")
        ind = [c for c in lw.calls() if "ind" in c.callee or c.is_(r"ops::function::Fn::call$")]
        chk.floor("try_lock invocations", len(ind), 2)
        for i, c in enumerate(ind):
            ok = any(fl.derives_from_call(a, r"add_lock_suffix$") for a in c.args)
            chk.ob("try-lock-gets-lock-path", "lock_with_mode try_lock #%d" % i, ok, "creation callback must receive add_lock_suffix(resource)", c.where(), key="try-lock-gets-lock-path|%d" % i)
    als = db.one(r"^gix_lock::acquire::add_lock_suffix$")
    afl = Flow(als)
    we = als.calls_to(r"Path::with_extension$")
    chk.floor("with_extension in add_lock_suffix", len(we), 1)
    if we:
        ok = any(r[0] == "arg" and r[1] == 1 for r in afl.roots(we[0].args[0], stop_named=False)) and afl.derives_from_call(we[0].args[1], r"Path::extension$")
        chk.ob("suffix-appended-to-own-extension", "add_lock_suffix", ok, "with_extension must be applied to the resource with an extension derived from resource.extension()", we[0].where(), key="suffix-appended-to-own-extension")
    uses = db.const_uses(["gix_lock"]).get("gix_lock::DOT_LOCK_SUFFIX", [])
    clo = {re.sub(r"::\{promoted#\d+\}$", "", f.name) for f, bi, ctx in uses}
    fam = {als.name} | {c.name for c in db.closures_of(als)}
    chk.ob("suffix-constant", "add_lock_suffix (or its closures) builds the extension from DOT_LOCK_SUFFIX", bool(fam & clo), "users of the constant: %s" % sorted(clo), key="suffix-constant")
    c = db.const("gix_lock::DOT_LOCK_SUFFIX")
    chk.ob("spec-constant", "DOT_LOCK_SUFFIX", bytes.fromhex(c["bytes"]) == b".lock", "", "%s:%d" % (c["file"], c["line"]), key="spec-constant|DOT_LOCK_SUFFIX")
    for rp in db.find(r"^gix_lock::file::<impl gix_lock::(File|Marker)>::resource_path$"):
        chk.ob("resource-is-stripped-lock-path", rp.name, bool(rp.calls_to(r"file::strip_lock_suffix$")), "", "%s:%d" % (rp.file, rp.line), key="resource-is-stripped|%s" % rp.name)
    commits = db.find(r"^gix_lock::commit::<impl gix_lock::(File|Marker)>::commit$")
    chk.floor("commit functions", len(commits), 2)
    for cm in commits:
        cfl = Flow(cm)
        ps = cm.calls_to(r"::persist$")
        ok = bool(ps) and all(cfl.derives_from_call(p.args[1], r"::resource_path$") for p in ps)
        chk.ob("commit-persists-onto-resource", cm.name, ok, "persist target must be resource_path()", "%s:%d" % (cm.file, cm.line), key="commit-persists-onto-resource|%s" % cm.name)
    # exact path creation
    ap = db.one(r"^gix_tempfile::handle::<impl gix_tempfile::Handle<\(\)>>::at_path$")
    apf = Flow(ap)
    rb = ap.calls_to(r"tempfile::Builder::<'a, 'b>::rand_bytes$|Builder.*::rand_bytes$")
    chk.floor("rand_bytes call in at_path", len(rb), 1)
    for c_ in rb:
        chk.ob("exact-path", "at_path rand_bytes", c_.args[1].get("v") == 0, "rand_bytes(%s)" % c_.args[1].get("v"), c_.where(), key="exact-path|rand_bytes")
    ti = ap.calls_to(r"::tempfile_in$")
    chk.ob("exclusive-create", "at_path tempfile_in", len(ti) == 1 and not ap.calls_to(r"fs::File::create$|OpenOptions"), "file must be created via Builder::tempfile_in only", "%s:%d" % (ap.file, ap.line), key="exclusive-create")
    pre = ap.calls_to(r"Builder.*::prefix$")
    chk.ob("exact-path", "at_path prefix from file_stem", bool(pre) and any(apf.derives_from_call(p.args[1], r"Path::file_stem$") for p in pre), "", "%s:%d" % (ap.file, ap.line), key="exact-path|prefix")
    # Drop
    drops = [f for f in db.by_crate["gix_tempfile"] if f.trait_item == "core::ops::drop::Drop::drop" and (f.self_ty or "").startswith("gix_tempfile::Handle<")]
    chk.floor("Drop for Handle<T>", len(drops), 1)
    for d in drops:
        rem = [c for c in d.calls() if re.search(r"::remove$", c.name)]
        chk.ob("drop-removes-registry-entry", d.name, bool(rem), "", "%s:%d" % (d.file, d.line), key="drop-removes-registry-entry")
        reach = db.reachable([d.key])
        need = ["gix_tempfile::forksafe::ForksafeTempfile::drop_impl", "gix_tempfile::AutoRemove::execute_best_effort", "gix_fs::dir::remove::empty_upward_until_boundary"]
        for nm in need:
            chk.ob("drop-reaches-cleanup", "%s -> %s" % (d.name.split("::")[-3], nm.split("::")[-1]), nm in reach, "not reachable in the call graph", "%s:%d" % (d.file, d.line), key="drop-reaches-cleanup|%s" % nm)


def boundary_rule(db, chk):
    """dropping a lock removes the directories it created only up to the boundary: gix_fs::dir::remove::Iter::next recognises the boundary by PATH
    equality (component-wise: `store/`, `store/.` and `store` are one directory), like Iter::new validates it - not by comparing the raw strings."""
    f = db.one(r"gix_fs::dir::remove::Iter<.a> as core::iter::traits::iterator::Iterator>::next$")
    fl = Flow(f)
    cmps = [c for c in f.calls() if c.is_(r"cmp::PartialEq(<.*>)?>?::(eq|ne)$|iter::traits::iterator::Iterator::(eq|ne)$|Iterator>?::(eq|ne)$") and len(c.args) == 2
            and any(any(r[0] == "arg" and ".boundary" in r[2] for r in fl.roots(a, stop_named=False)) for a in c.args)]
    chk.floor("remove::Iter::next: comparison with the boundary", len(cmps), 1)
    for c in cmps:
        tys = [f.locals[a["p"][0]] if "p" in a and isinstance(a["p"][0], int) else "" for a in c.args]
        ok = all(re.search(r"std::path::(Path(Buf)?|Components(<.*>)?)$", t.replace("&", "").replace("mut ", "").strip()) for t in tys)
        chk.ob("boundary-compared-as-path", "remove::Iter::next", ok, "the boundary is compared as %s: a boundary spelled `dir/` or `dir/.` is not recognised and the boundary directory itself (and empty ancestors) are removed" % tys,
               c.where(), key="boundary-compared-as-path")
