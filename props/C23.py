"""C23 Tempfiles removed on termination — signal-handler effect clauses (CG), pid-filter dominance (DOM), persist ordering."""
import re
from gx import facts
from gx.flow import Flow, comparisons

TECHNIQUE = "effect allow-list over the call graph reachable from the signal handler (no blocking lock, no deallocating drop), guard cut-set for the owning-pid filter, ordering of registry removal vs rename in persist; both registry configurations"
EXPLANATION = ("In both builds of gix-tempfile (dashmap registry as unified by the workspace, and the non-hp-hashmap registry built separately): "
               "(1) nothing reachable inside gix-tempfile from cleanup_tempfiles_signal_safe calls a blocking lock or a blocking registry operation "
               "(only try_entry / try_lock), and the handler function registered for signals reaches it; (2) every take()/drop_without_deallocation in "
               "both cleanup functions is cut off from closure entry once the true edge of the `owning_process_id == current pid` filter is removed, and the "
               "filter closure really compares that field; (3) the value taken is the value passed to drop_without_deallocation and no Drop terminator for a "
               "ForksafeTempfile exists on the handler path; (4) Handle::persist (both typestates) removes the id from the registry before the rename closure is "
               "even constructed and re-inserts only on the Err arm. No guard into the registry is alive across a call of a caller-supplied closure in the Handle API (both registry configurations). Timing of signal arrival relative to registry mutation is not decided.")
BLOCKING = re.compile(
    r"([Mm]utex::Mutex(::)?<[^>]*>::lock$|RwLock.*::(read|write)$|parking_lot.*::(lock|read|write)$|"
    r"dashmap::DashMap::<K, V, S>::(get|get_mut|entry|iter|iter_mut|remove|insert|alter|alter_all|retain|clear|shards|remove_if|view)$|"
    r"hashmap::Concurrent::<K, V>::(insert|remove)$|thread::sleep|Condvar|std::sync::mpmc|Once::call_once)")
NONBLOCKING_REQUIRED = {"ws": r"dashmap::DashMap::<K, V, S>::try_entry$", "tf-nohp": r"[Mm]utex::Mutex(::)?<[^>]*>::try_lock$"}


def check_config(cfg, db, chk):
    tfns = {f.key: f for f in db.by_crate["gix_tempfile"]}
    root = db.one(r"^gix_tempfile::registry::cleanup_tempfiles_signal_safe$")
    parent = db.reachable([root.key], stop=lambda n: n not in tfns)
    inside = [n for n in parent if n in tfns]
    chk.count("%s: gix_tempfile functions reachable from the signal-safe cleanup" % cfg, len(inside))
    chk.floor("%s: functions on the handler path" % cfg, len(inside), 4)
    bad = []
    nb = False
    for n in inside:
        f = tfns[n]
        for c in f.calls():
            if BLOCKING.search(c.name) or BLOCKING.search(c.path):
                bad.append((f, c))
            if re.search(NONBLOCKING_REQUIRED[cfg], c.name):
                nb = True
        for bi in f.reachable_blocks():
            t = f.term(bi)
            if t[0] == "drop" and "ForksafeTempfile" in t[4] and not f.is_cleanup(bi):
                # conditional drops behind drop flags exist for moved-out options; only an unconditional drop of a live tempfile deallocates
                if "Option<" not in t[4]:
                    chk.ob("no-deallocating-drop-in-handler", "%s: %s" % (cfg, f.name), False, "drops %s" % t[4], "%s:%d" % (f.file, t[5]), key="no-dealloc-drop|%s|%s" % (cfg, f.name))
    for f, c in bad:
        chk.ob("no-blocking-lock-in-handler", "%s: %s" % (cfg, f.name), False, "calls %s (path: %s)" % (c.name, " -> ".join(x.split("::")[-1] for x in db.path_to(parent, f.key))), c.where(),
               key="no-blocking|%s|%s|%s" % (cfg, f.name, c.name.split("::")[-1]))
    if not bad:
        chk.ob("no-blocking-lock-in-handler", "%s: %d functions" % (cfg, len(inside)), True)
    chk.ob("registry-scanned-with-try-lock", cfg, nb, "expected a call matching %s on the handler path" % NONBLOCKING_REQUIRED[cfg], "%s:%d" % (root.file, root.line), key="try-lock|%s" % cfg)
    h = db.one(r"^gix_tempfile::signal::handler::cleanup_tempfiles_nix$")
    chk.ob("handler-reaches-cleanup", "%s: cleanup_tempfiles_nix" % cfg, root.key in db.reachable([h.key], stop=lambda n: n not in tfns), "", "%s:%d" % (h.file, h.line), key="handler-reaches-cleanup|%s" % cfg)
    # pid filter
    for rootname in ("cleanup_tempfiles_signal_safe", "cleanup_tempfiles"):
        r = db.one(r"^gix_tempfile::registry::%s$" % rootname)
        clos = [f for f in db.closures_of(r) if f.kind == "closure"]
        takers = [f for f in clos if f.calls_to(r"Option::<T>::take$")]
        chk.floor("%s: closures taking tempfiles in %s" % (cfg, rootname), len(takers), 1)
        for f in takers:
            fl = Flow(f)
            filt = f.calls_to(r"Option::<T>::map_or$")
            good = set()
            for c in filt:
                good |= fl.result_edges(c)["good"]
            sinks = [c for c in f.calls() if c.is_(r"Option::<T>::take$|drop_without_deallocation$")]
            ok = bool(good) and fl.cut_off([s.block for s in sinks], good)
            chk.ob("pid-filter-dominates-take", "%s: %s" % (cfg, f.name.split("registry::")[-1]), ok, "take()/drop_without_deallocation reachable without passing the owning-pid filter", "%s:%d" % (f.file, f.line),
                   key="pid-filter|%s|%s" % (cfg, f.name))
            # the filter closure compares owning_process_id with the captured pid
            inner = [g for g in db.closures_of(f) if g.kind == "closure"]
            cmp_ok = False
            for g in inner:
                gfl = Flow(g)
                for cmp in comparisons(g):
                    if cmp["op"] != "Eq":
                        continue
                    ra = gfl.roots(cmp["a"], stop_named=False) | gfl.roots(cmp["b"], stop_named=False)
                    if any(r[0] == "arg" and ".owning_process_id" in r[2] for r in ra) and any(r[0] == "arg" and r[1] == 1 for r in ra):
                        cmp_ok = True
            chk.ob("pid-filter-compares-owner", "%s: %s" % (cfg, f.name.split("registry::")[-1]), cmp_ok, "filter closure must compare .owning_process_id with the captured current pid", "%s:%d" % (f.file, f.line),
                   key="pid-filter-cmp|%s|%s" % (cfg, f.name))
            for d in f.calls_to(r"drop_without_deallocation$"):
                chk.ob("taken-value-is-leaked", "%s: %s" % (cfg, f.name.split("registry::")[-1]), fl.derives_from_call(d.args[0], r"Option::<T>::take$"), "", d.where(), key="taken-leaked|%s|%s" % (cfg, f.name))
    # owner pid: stamped once at registration, carried over by every transformation of a registered tempfile
    new = db.one(r"^gix_tempfile::forksafe::ForksafeTempfile::new$")
    pid_callers = sorted({f.name for f in tfns.values() if f.kind != "promoted" for c in f.calls() if c.is_(r"^std::process::id$")})
    allowed = {new.name, "gix_tempfile::registry::cleanup_tempfiles_signal_safe", "gix_tempfile::registry::cleanup_tempfiles"}
    chk.ob("owner-pid-stamped-at-registration", "%s: callers of std::process::id" % cfg, set(pid_callers) <= allowed and new.name in pid_callers, "process id is read in %s" % pid_callers, "%s:%d" % (new.file, new.line), key="owner-pid|%s|pid-callers" % cfg)
    new_callers = sorted({f.name for f in tfns.values() if f.kind != "promoted" for c in f.calls() if c.is_(r"^gix_tempfile::forksafe::ForksafeTempfile::new$")})
    okc = bool(new_callers) and all(re.search(r"gix_tempfile::handle::<impl gix_tempfile::Handle<\(\)>>::(at_path|new_writable_inner)", n) for n in new_callers)
    chk.ob("owner-pid-stamped-at-registration", "%s: ForksafeTempfile::new only when a tempfile is first registered" % cfg, okc,
           "ForksafeTempfile::new (which stamps the current pid) is called from %s; a transformation of an inherited tempfile in a forked child would claim the parent's file" % new_callers, "%s:%d" % (new.file, new.line), key="owner-pid|%s|new-callers" % cfg)
    nb = 0
    for f in tfns.values():
        if f.kind == "promoted" or f.name == new.name:
            continue
        ffl = None
        for bi, si, pl, rv, ln, mc in f.assigns():
            if rv[0] == "agg" and rv[1] == "adt" and rv[2] == "gix_tempfile::forksafe::ForksafeTempfile" and len(rv) > 5 and "owning_process_id" in rv[5]:
                nb += 1
                ffl = ffl or Flow(f)
                o = rv[4][rv[5].index("owning_process_id")]
                src = ffl.roots(o, stop_named=False)
                ok = any(r[0] == "arg" and ".owning_process_id" in r[2] for r in src) and not any(r[0] == "call" for r in src)
                chk.ob("owner-pid-carried-over", "%s: %s" % (cfg, f.name), ok, "a rebuilt ForksafeTempfile must keep self.owning_process_id, got %s" % sorted(map(str, src))[:3], "%s:%d" % (f.file, ln), key="owner-pid|%s|%s" % (cfg, f.name))
    chk.floor("%s: ForksafeTempfile rebuilt outside new()" % cfg, nb, 1)
    # persist ordering
    ps = db.find(r"^gix_tempfile::handle::persist::<impl gix_tempfile::Handle<gix_tempfile::handle::(Writable|Closed)>>::persist$")
    chk.floor("%s: Handle::persist impls" % cfg, len(ps), 2)
    for p in ps:
        fl = Flow(p)
        rem = [c for c in p.calls() if re.search(r"::remove$", c.name)]
        ins = [c for c in p.calls() if re.search(r"::insert$", c.name)]
        aggs = [bi for bi, si, pl, rv, ln, mc in p.assigns() if rv[0] == "agg" and rv[1] == "closure"]
        at = p.calls_to(r"Option::<T>::and_then$")
        ok = len(rem) == 1 and bool(aggs) and all(p.dominates(rem[0].block, b) and b != rem[0].block for b in aggs)
        chk.ob("registry-removal-before-rename", "%s: %s" % (cfg, p.self_ty), ok, "REGISTRY.remove must dominate construction of the closure that renames", "%s:%d" % (p.file, p.line), key="remove-before-rename|%s|%s" % (cfg, p.self_ty))
        bad_e = set()
        for c in at:
            bad_e |= fl.result_edges(c, nested=True)["bad"]
        # Err edges only (None edges are 'bad' too by name; keep those whose variant is Err)
        err_edges = set()
        for bi in p.reachable_blocks():
            sv = p.switch_variants(bi)
            if sv:
                for tgt, names in sv["edges"].items():
                    if "Err" in names and (bi, tgt) in bad_e:
                        err_edges.add((bi, tgt))
        ok = bool(ins) and bool(err_edges) and fl.cut_off([c.block for c in ins], err_edges)
        chk.ob("reinsert-only-on-error", "%s: %s" % (cfg, p.self_ty), ok, "REGISTRY.insert must be reachable only through the Err arm of the persist result", "%s:%d" % (p.file, p.line), key="reinsert-on-err|%s|%s" % (cfg, p.self_ty))


def handler_is_stateless(cfg, db, chk):
    """every signal scans the whole registry: the cleanup keeps no state of its own between invocations - inside
    cleanup_tempfiles_signal_safe (and its closures) atomics/statics are only loaded, never stored, swapped or updated (a tempfile that was
    temporarily out of the registry, or whose shard was locked, during one signal must be found by the next one)."""
    fs = [f for f in db.by_crate["gix_tempfile"] if "registry::cleanup_tempfiles_signal_safe" in f.name and f.kind != "promoted"]
    chk.floor("[%s] cleanup_tempfiles_signal_safe bodies" % cfg, len(fs), 1)
    loads = sum(1 for f in fs for c in f.calls() if c.is_(r"sync::atomic::Atomic\w*(::<\w+>)?::load$"))
    writes = [(f, c) for f in fs for c in f.calls() if c.is_(r"sync::atomic::Atomic\w*(::<\w+>)?::(store|swap|fetch_\w+|compare_exchange\w*)$")]
    for f, c in writes:
        chk.ob("signal-cleanup-keeps-no-state", "[%s] %s" % (cfg, c.name.split("::")[-1]), False,
               "the signal-safe cleanup updates a static (%s): state carried from one signal to the next lets it skip registry entries it could not take the first time" % c.name,
               c.where(), key="handler-state|%s|%s" % (cfg, c.name.split("::")[-1]))
    if not writes:
        chk.ob("signal-cleanup-keeps-no-state", "[%s] cleanup_tempfiles_signal_safe (%d atomic loads, 0 writes)" % (cfg, loads), True)
    # the scan starts at index 0
    for f in fs:
        for bi, si, pl, rv, ln, mc in f.assigns():
            if rv[0] == "agg" and rv[1] == "adt" and rv[2].endswith("ops::range::Range") and len(rv[4]) == 2:
                chk.ob("signal-cleanup-scans-from-zero", "[%s] registry index range" % cfg, "p" not in rv[4][0] and rv[4][0].get("v") == 0,
                       "the registry scan does not start at index 0", "%s:%d" % (f.file, ln), key="handler-scan-start|%s" % cfg)


def run(db, chk):
    handler_is_stateless("ws", db, chk)
    check_config("ws", db, chk)
    no_guard_across_callback("ws", db, chk)
    db2 = facts.load("tf-nohp")
    check_config("tf-nohp", db2, chk)
    no_guard_across_callback("tf-nohp", db2, chk)
    chk.analysed["configs"] = ["ws (hp-hashmap/dashmap registry)", "tf-nohp (Concurrent<Mutex<HashMap>> registry)"]


GUARD_TY = re.compile(r"(^|[<\s])(dashmap::mapref::one::RefMut<|dashmap::mapref::one::Ref<|dashmap::mapref::entry::|lock_api::mutex::(Mapped)?MutexGuard<|parking_lot::\w*Guard|std::sync::\w*Guard<)")


def no_guard_across_callback(cfg, db, chk):
    """the signal handler only TRIES to lock the registry (shard) and skips what it cannot lock.  Whoever holds a registry guard while running
    caller-supplied code (a write of any length) makes the handler skip every other tempfile of that shard - of the whole registry without
    hp-hashmap.  So in the Handle API no guard into the registry is alive across a call of a closure the caller passed in: the entry is taken
    out (remove), used, and put back.  Liveness = from the call that produced the guard to the MIR drop of that local."""
    scope = [f for f in db.by_crate["gix_tempfile"] if f.kind != "promoted" and "::handle::" in f.name]
    chk.floor("[%s] functions of the Handle API" % cfg, len(scope), 8)
    n_cb = 0
    for f in scope:
        cbs = []
        for c in f.calls():
            if c.is_(r"ops::function::Fn(Once|Mut)?::call(_once|_mut)?$") and c.args and "p" in c.args[0]:
                ty = f.locals[c.args[0]["p"][0]]
                if ty.startswith("impl Fn") or re.match(r"^[A-Z]\w{0,12}$", ty):
                    cbs.append(c)
        if not cbs:
            continue
        n_cb += len(cbs)
        guards = [l for l in range(f.argc + 1, len(f.locals)) if not f.locals[l].startswith("&") and GUARD_TY.search(f.locals[l])]
        bad = []
        for g in guards:
            born = [c for c in f.calls() if c.dest == [g]]
            drops = {b for b in range(len(f.blocks)) if f.term(b)[0] == "drop" and f.term(b)[1] == [g]}
            for bc in born:
                if bc.target is None:
                    continue
                live = f.reach_from(bc.target, avoid=drops)
                for c in cbs:
                    if c.block in live:
                        bad.append((GUARD_TY.search(f.locals[g]).group(2).rstrip("<:").split("::")[-1], bc.name.split("::")[-1], c.line))
        for c in cbs:
            hit = [b for b in bad if b[2] == c.line]
            chk.ob("no-registry-guard-across-callback", "[%s] %s callback@%d" % (cfg, f.name.split("::")[-1], c.line), not hit,
                   "a %s obtained by %s() is alive while the caller's closure runs: a termination signal during that time makes cleanup skip all other registered tempfiles behind the same lock" % (hit[0][0], hit[0][1]) if hit else "",
                   c.where(), key="guard-across-callback|%s|%s" % (cfg, f.name.split("::")[-1]))
    chk.floor("[%s] caller-supplied closures invoked by the Handle API" % cfg, n_cb, 1)
