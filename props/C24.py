"""C24 Index decode — one shared entry decoder for every thread limit (CG), stat field order agrees between sibling decoders and git (TAB)."""
import re
from props import _index_fields as ixf
from gx.flow import Flow

TECHNIQUE = "who-may-call rule for the entry decoder, ordered join of worker results, field-sequence agreement (k-th on-disk u32 -> struct field) between sibling decoders and the format"
EXPLANATION = ("(1) gix_index::decode: Entry values are constructed only in entries::load_one, load_one is called only from entries::chunk, and "
               "every decoding path (single-threaded and offset-table/threaded) reaches entries through entries::chunk; worker results are joined "
               "through InOrderIter; (2) for every function that decodes git's stat_data (load_one for entries, decode::stat for the untracked-cache "
               "extension) the map `k-th read_u32 -> Stat field` is extracted from MIR and must be git's order ctime.secs, ctime.nsecs, mtime.secs, "
               "mtime.nsecs, dev, ino, [mode], uid, gid, size. (3) every non-V4 path through load_one passes skip_padding before the Entry is built (writer/reader pairing of the 8-byte entry padding); (4) no remainder-dropping or filtering adaptor "
               "(chunks_exact, windows, take, skip, step_by, filter, truncate, ...) is applied to the IEOT offset list, because the threaded path never re-counts "
               "decoded entries. Every shift-by-7/mask-127 loop of gix-index and gix_features::decode adds 1 before shifting (git's offset var-int) and util::var_int is or delegates to one. Equality of all decoded content with what git stored is not decided.")


def run(db, chk):
    tree_ext_order_rule(db, chk)
    varint_rule(db, chk)
    dec = [f for f in db.by_crate["gix_index"] if f.kind != "promoted"]
    # who constructs Entry / who calls load_one / who calls chunk
    builders = {f.name for f in dec if "::decode::" in f.name for bi, si, pl, rv, ln, mc in f.assigns() if rv[0] == "agg" and rv[1] == "adt" and rv[2] == "gix_index::Entry"}
    chk.ob("single-entry-decoder", "Entry built in decode only by load_one", builders == {"gix_index::decode::entries::load_one"}, "builders: %s" % sorted(builders), key="single-entry-decoder|builders")
    callers = sorted({f.name for f in dec for c in f.calls() if c.is_(r"^gix_index::decode::entries::load_one$")})
    chk.ob("single-entry-decoder", "load_one called only by chunk", callers == ["gix_index::decode::entries::chunk"], "callers: %s" % callers, key="single-entry-decoder|load_one-callers")
    chunk_callers = sorted({f.name for f in dec for c in f.calls() if c.is_(r"^gix_index::decode::entries::chunk$")})
    chk.floor("callers of entries::chunk (sequential + threaded path)", len(chunk_callers), 2)
    fb = db.one(r"^gix_index::decode::<impl gix_index::State>::from_bytes$")
    reach = db.reachable([fb.key], stop=lambda n: not n.startswith("gix_index::") and not n.startswith("<gix_index::"))
    for cc in chunk_callers:
        chk.ob("decoder-reached-from-from_bytes", cc.split("gix_index::")[-1], cc in reach, "not reachable from State::from_bytes", key="decoder-reached|%s" % cc)
    inorder = [g for g in [fb] + db.closures_of(fb) for c in g.calls() if c.is_(r"InOrderIter<T, I> as core::convert::From<I>>::from$|parallel::in_order::InOrderIter")]
    chk.ob("threads-joined-in-order", "from_bytes uses InOrderIter", bool(inorder), "", "%s:%d" % (fb.file, fb.line), key="threads-joined-in-order")
    # (1b) the offset table is partitioned among workers without dropping blocks: no remainder-dropping / filtering adaptor is applied to a
    # slice or iterator of index_entry_offset_table::Offset anywhere in the decoder (the threaded path never re-counts the decoded entries)
    lossy = r"::(chunks_exact|chunks_exact_mut|rchunks_exact|array_chunks|as_chunks|as_rchunks|array_windows|windows|split_off|truncate|pop|drain)$|Iterator::(take|skip|step_by|take_while|skip_while|filter|filter_map)$"
    fam = [g for g in dec if "::decode::" in g.name]
    n_part = 0
    for g in fam:
        for c in g.calls():
            if not c.args or "p" not in c.args[0]:
                continue
            ty = g.locals[c.args[0]["p"][0]] if isinstance(c.args[0]["p"][0], int) else ""
            if "index_entry_offset_table::Offset" not in ty:
                continue
            n_part += 1
            if c.is_(lossy):
                chk.ob("offset-table-partition-total", "%s %s" % (g.name, c.name.split("::")[-1]), False,
                       "%s on the IEOT offsets can drop blocks; their entries would never be decoded and nothing re-counts them" % c.name, c.where(),
                       key="offset-table-partition|%s|%s" % (g.name, c.name.split("::")[-1]))
    chk.floor("calls on the IEOT offset list in the decoder (partition + iteration)", n_part, 3)
    if not any(o["rule"] == "offset-table-partition-total" for o in chk.obligations):
        chk.ob("offset-table-partition-total", "%d calls on the offset list" % n_part, True)
    # (1c) writer/reader pairing of the entry padding: git (and gix_index::write) pad every V2/V3 entry to a multiple of 8, so on every path through
    # load_one that does not take the V4 prefix-compression branch (var_int), the decoder must pass through skip_padding before it builds the Entry -
    # including the branch for names of 0xfff bytes or more, which are NUL-terminated *and* padded
    lo = db.one(r"^gix_index::decode::entries::load_one$")
    builds = [bi for bi, si, pl, rv, ln, mc in lo.assigns() if rv[0] == "agg" and rv[1] == "adt" and rv[2] == "gix_index::Entry"]
    pads = lo.calls_to(r"entries::skip_padding$")
    v4 = lo.calls_to(r"::var_int$")
    chk.floor("load_one: Entry construction / skip_padding / var_int sites", min(len(builds), len(pads), len(v4)), 1)
    if builds and pads and v4:
        r_ = lo.reach_from(0, avoid=[c.block for c in pads] + [c.block for c in v4])
        # the call blocks themselves are avoided; their successors are reachable only through them
        leak = [b for b in builds if b in r_]
        chk.ob("v2-entry-padding-skipped", "load_one: every non-V4 path passes skip_padding", not leak,
               "an Entry can be built on a V2/V3 path that never skips the entry padding (names >= 0xfff bytes): the next entry is then parsed from the padding bytes",
               "%s:%d" % (lo.file, lo.line), key="v2-padding|load_one")
    # field sequences
    n = 0
    for f in dec:
        if not any(rv[0] == "agg" and rv[1] == "adt" and rv[2] == "gix_index::entry::Stat" for bi, si, pl, rv, ln, mc in f.assigns()):
            continue
        if not f.calls_to(r"gix_index::util::read_u32$"):
            continue
        n += 1
        seq, missing, nreads = ixf.reader_sequence(f)
        got = [x[1] for x in seq]
        want = [x for x in ixf.SPEC if x != "mode" or "mode" in got]
        chk.ob("stat-field-order", f.name, got == want and not missing, "decodes %s, git's stat_data order is %s" % (got, want), "%s:%d" % (f.file, f.line), key="stat-field-order|%s" % f.name)
        slots = [x[0] for x in seq]
        chk.ob("stat-slots-contiguous", f.name, slots == list(range(len(slots))), "slots %s" % slots, "%s:%d" % (f.file, f.line), key="stat-slots|%s" % f.name)
        chk.sample({"decoder": f.name, "sequence": seq})
    chk.floor("functions decoding stat_data", n, 2)


def tree_ext_order_rule(db, chk):
    """TREE extension: git writes sibling sub-trees ordered by (length, bytes), which is not the byte order lookups use; the reader therefore has to
    SORT what it read (and may reject duplicates), it cannot reject a node because its children are not in byte order."""
    f = db.one(r"^gix_index::extension::tree::decode::one_recursive$")
    fam = [f] + [g for g in db.closures_of(f) if g.kind == "closure"]
    sorts = [c for c in f.calls() if c.is_(r"::(sort_by|sort|sort_unstable_by|sort_unstable|sort_by_key)$")]
    sort_clos = set()
    for c in sorts:
        for a in c.args:
            for r in Flow(f).roots(a, stop_named=False):
                if r[0] == "const" and isinstance(r[1], str) and r[1].startswith("agg:"):
                    sort_clos.add(r[1][4:-2])
    chk.ob("tree-ext-children-sorted-by-reader", "extension::tree::decode::one_recursive", bool(sorts),
           "the decoded sub-trees are not sorted by the reader although git's on-disk order (length first) differs from the byte order used for lookups", "%s:%d" % (f.file, f.line), key="tree-ext-sort|one_recursive")
    ordering = [(g, c) for g in fam if g.name not in sort_clos for c in g.calls() if c.is_(r"cmp::PartialOrd(<.*>)?>?::(ge|gt|lt|le)$|::partial_cmp$")]
    for g, c in ordering:
        chk.ob("tree-ext-no-order-requirement", "%s %s@%d" % (g.name.split("::")[-1], c.name.split("::")[-1], c.line), False,
               "the reader demands an order of sibling sub-trees: a cache tree written by git with siblings `b`, `aa` (git sorts by length first) would be rejected as a whole",
               c.where(), key="tree-ext-order|%s" % c.name.split("::")[-1])
    if not ordering:
        chk.ob("tree-ext-no-order-requirement", "one_recursive (no ordering test outside the sort comparator)", True)


def varint_rule(db, chk):
    """index V4 prefix lengths and the untracked cache use git's OFFSET var-int: value = ((value + 1) << 7) | (byte & 0x7f) per continuation byte.
    Every function of gix-index (and the shared decoders in gix_features::decode it delegates to) that has the shape of a var-int loop - a shift
    by 7 together with a mask of 127 - must shift a value that was incremented by 1 first.  Values below 128 decode alike either way, so only the
    shape of the arithmetic can tell.  gix_index::util::var_int must be such a function or delegate to one."""
    from gx import tab
    scope = [f for f in db.by_crate["gix_index"] if f.kind != "promoted"] + [f for f in db.by_crate["gix_features"] if f.kind != "promoted" and "::decode::" in f.name]
    loops_ = []
    for f in scope:
        sig = tab.arith_signature(f, ("Shl", "BitAnd"))
        if any(k[0] == "Shl" and k[1] == 7 for k in sig) and any(k[0] == "BitAnd" and k[1] == 127 for k in sig):
            loops_.append(f)
    chk.floor("var-int decoders (shift by 7, mask 127) in gix_index + gix_features::decode", len(loops_), 2)
    good = set()
    for f in loops_:
        fl = Flow(f)
        ok = True
        n = 0
        for bi, si, pl, rv, ln, mc in f.assigns():
            if rv[0] == "bin" and rv[1] in ("Shl", "ShlUnchecked") and "p" not in rv[3] and rv[3].get("v") == 7 and "p" in rv[2]:
                n += 1
                # the shifted value: some definition on the way is `x + 1`
                plus1 = False
                seen, work = set(), [rv[2]["p"][0]]
                while work:
                    l = work.pop()
                    if l in seen:
                        continue
                    seen.add(l)
                    for c2 in f.calls():
                        if c2.dest and c2.dest[0] == l:
                            if c2.is_(r"::(checked|wrapping|saturating|overflowing|unchecked)_add$") and any("p" not in o and o.get("v") == 1 for o in c2.args):
                                plus1 = True
                            if c2.is_(r"::(checked|wrapping|saturating|overflowing|unchecked)_add$|Try>::branch$|::from$|::into$|::unwrap\w*$|::expect$|::ok_or\w*$"):
                                for o in c2.args:
                                    if "p" in o and isinstance(o["p"][0], int):
                                        work.append(o["p"][0])
                    for b2, s2, pl2, rv2, ln2, mc2 in f.assigns():
                        if pl2 and pl2[0] == l:
                            if rv2[0] == "bin" and rv2[1] in ("Add", "AddWithOverflow", "AddUnchecked") and any("p" not in o and o.get("v") == 1 for o in (rv2[2], rv2[3])):
                                plus1 = True
                            for o in ([rv2[1]] if rv2[0] == "use" else [rv2[2]] if rv2[0] == "cast" else [rv2[2], rv2[3]] if rv2[0] == "bin" else []):
                                if isinstance(o, dict) and "p" in o:
                                    work.append(o["p"][0])
                ok = ok and plus1
        chk.ob("varint-is-offset-encoded", "%s (%d shift(s) by 7)" % (f.name.split("::")[-1], n), ok and n > 0,
               "a var-int loop shifts the accumulated value by 7 without adding 1 first: values of 128 and above come out 128 (or more) too small - V4 paths with a long stripped prefix decode to a path git never stored",
               "%s:%d" % (f.file, f.line), key="varint|%s" % f.name.split("::")[-1])
        if ok and n:
            good.add(f.name)
    vi = db.one(r"^gix_index::util::var_int$")
    delegates = [c for c in vi.calls() if any(c.is_("^" + re.escape(g) + "$") for g in good)]
    chk.ob("varint-is-offset-encoded", "gix_index::util::var_int", vi.name in good or bool(delegates), "neither an offset var-int loop nor a call to one", "%s:%d" % (vi.file, vi.line), key="varint|util::var_int")
