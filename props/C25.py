"""C25 Index write — writer field sequence equals reader field sequence (TAB), path-length saturation and padding constants, extension signatures."""
import re
from props import _index_fields as ixf
from gx import tab
from gx.flow import Flow, comparisons, upper_bounded_edges

TECHNIQUE = "field-sequence agreement between the entry writer and the entry reader, shared-constant and arithmetic-signature checks for path-length saturation and padding, extension signature table agreement"
EXPLANATION = ("The ordered sequence of stat/mode fields that Entry::write_to emits as big-endian integers is extracted from MIR and must equal the "
               "sequence entries::load_one reads (and git's layout); the path length saturates at Flags::PATH_LEN on write (comparison and bit-or with the "
               "same item) and the reader tests the same item before scanning for NUL; the writer pads to a multiple of 8 relative to the header and the "
               "reader's skip_padding uses +8 & !7; every extension signature the writer emits is one the reader dispatches on, with git's 4-byte values. "
               "CountBytes::write grows its counter by the inner writer's returned count on the success edge; the closure that writes the TREE extension tests Flags::REMOVE. Acceptance by git and full state equality are not decided.")
SIGS = {"tree": b"TREE", "end_of_index_entry": b"EOIE", "sparse": b"sdir", "link": b"link", "resolve_undo": b"REUC", "untracked_cache": b"UNTR",
        "fs_monitor": b"FSMN", "index_entry_offset_table": b"IEOT"}


def run(db, chk):
    storage_flags_rule(db, chk)
    count_what_was_written(db, chk)
    tree_cache_vs_removed_entries(db, chk)
    w = db.one(r"^gix_index::entry::write::<impl gix_index::Entry>::write_to$")
    r = db.one(r"^gix_index::decode::entries::load_one$")
    wseq = [x for x in ixf.writer_sequence(w)]
    head = wseq[:10]
    rseq, missing, nreads = ixf.reader_sequence(r)
    rs = [x[1] for x in rseq]
    chk.ob("field-sequence", "Entry::write_to == load_one == git", head == rs == ixf.SPEC, "writer %s reader %s" % (head, rs), "%s:%d" % (w.file, w.line), key="field-sequence|entry")
    chk.sample({"writer": wseq, "reader": rseq})
    # id follows, then flags|path_len
    chk.ob("field-sequence", "10 integer fields then id, flags, path", len(wseq) >= 13 and wseq[10] is None and wseq[11] == "flags", str(wseq), "%s:%d" % (w.file, w.line), key="field-sequence|tail")
    uses = db.const_uses(["gix_index"])
    pl = [k for k in uses if k.endswith("Flags::PATH_LEN")]
    chk.floor("Flags::PATH_LEN item", len(pl), 1)
    wu = {f.name for k in pl for f, bi, ctx in uses[k]}
    chk.ob("path-len-saturation", "writer uses Flags::PATH_LEN", w.name in wu, "", "%s:%d" % (w.file, w.line), key="path-len|writer")
    chk.ob("path-len-saturation", "reader uses Flags::PATH_LEN", r.name in wu, "", "%s:%d" % (r.file, r.line), key="path-len|reader")
    # the path length is saturated in the wide type: a truncating `as` cast to a narrower integer of a value derived from len() must be
    # cut off by an upper-bounding comparison on a len-derived value, or take its operand from min()/clamp() (checked conversions are fine)
    wfl = Flow(w)
    WIDTH = {"u8": 8, "u16": 16, "u32": 32, "i8": 8, "i16": 16, "i32": 32}
    n_len = len(w.calls_to(r"::len$"))
    chk.floor("path.len() in Entry::write_to", n_len, 1)
    for bi, si, pl_, rv, ln, mc in w.assigns():
        if rv[0] != "cast" or rv[1] != "IntToInt" or rv[3] not in WIDTH or "p" not in rv[2]:
            continue
        src_ty = w.locals[rv[2]["p"][0]] if isinstance(rv[2]["p"][0], int) else ""
        if src_ty not in ("usize", "u64", "u128") :
            continue
        roots = wfl.roots(rv[2], stop_named=False, sites=True)
        if not any(r[0] == "call" and r[1].endswith("::len") for r in roots):
            continue
        sat = any(r[0] == "call" and re.search(r"::(min|clamp)$", r[1]) for r in roots)
        if not sat:
            lens = {r for r in roots if r[0] == "call" and r[1].endswith("::len")}
            for c in comparisons(w):
                for side in ("a", "b"):
                    if "p" not in c[side]:
                        continue
                    if not any(r[0] == "call" and r[1].endswith("::len") for r in wfl.roots(c[side], stop_named=False, sites=True)):
                        continue
                    e = upper_bounded_edges(w, c, side)
                    if e and wfl.cut_off([bi], e):
                        sat = True
        chk.ob("path-len-saturation", "narrowing of path.len() to %s is bounded first" % rv[3], sat,
               "`len as %s` truncates before any bound is applied: a path of 65536+k bytes is recorded as k" % rv[3], "%s:%d" % (w.file, ln), key="path-len|narrowing")
    c = db.consts.get([k for k in db.consts if k.endswith("Flags::PATH_LEN")][0]) if [k for k in db.consts if k.endswith("Flags::PATH_LEN")] else None
    # padding
    ent = db.one(r"^gix_index::write::entries$")
    sig = tab.arith_signature(ent, ("Rem", "Sub"))
    chk.ob("padding", "writer pads to 8 relative to the header", ("Rem", 8, "r") in sig and any(k[0] == "Sub" for k in sig) or ("Rem", 8, "r") in sig, str(dict(sig)), "%s:%d" % (ent.file, ent.line), key="padding|writer")
    efl = Flow(ent)
    rem = [(bi, rv) for bi, si, pl_, rv, ln, mc in ent.assigns() if rv[0] == "bin" and rv[1] == "Rem"]
    okhdr = any(any(x[0] == "arg" and x[1] == 3 for x in efl.roots(rv[2], stop_named=False)) for bi, rv in rem)
    chk.ob("padding", "padding is relative to header_size", okhdr, "the dividend must derive from the header_size parameter", "%s:%d" % (ent.file, ent.line), key="padding|header-relative")
    sp = db.one(r"^gix_index::decode::entries::skip_padding$")
    ssig = tab.arith_signature(sp, ("Add",))
    not7 = any(rv[0] == "un" and rv[1] == "Not" and rv[2].get("v") == 7 for bi, si, pl_, rv, ln, mc in sp.assigns())
    band = any(rv[0] == "bin" and rv[1] == "BitAnd" for bi, si, pl_, rv, ln, mc in sp.assigns())
    chk.ob("padding", "reader skip_padding uses (+8) & !7", ("Add", 8, "") in ssig and not7 and band, "signature %s, !7 present: %s" % (dict(ssig), not7), "%s:%d" % (sp.file, sp.line), key="padding|reader")
    # signatures
    for mod, want in SIGS.items():
        cst = db.consts.get("gix_index::extension::%s::SIGNATURE" % mod)
        got = bytes.fromhex(cst["bytes"]) if cst and "bytes" in cst else None
        chk.ob("spec-constant", "extension %s signature" % mod, got == want, "is %r, format says %r" % (got, want), key="spec-constant|sig|%s" % mod)
    hs = db.const("gix_index::decode::header::SIGNATURE")
    chk.ob("spec-constant", "DIRC", bytes.fromhex(hs["bytes"]) == b"DIRC", "", key="spec-constant|DIRC")
    allf = db.one(r"^gix_index::extension::decode::all$")
    read_sigs = set()
    for sw in tab.switches(allf, 1):
        pass
    dispatched = {k.split("::")[-2] for k in uses if re.match(r"gix_index::extension::\w+::SIGNATURE$", k) and any(f.name.startswith("gix_index::extension::decode::all") for f, bi, ctx in uses[k])}
    written = set()
    for k in uses:
        m = re.match(r"gix_index::extension::(\w+)::SIGNATURE$", k)
        if m and any(re.search(r"(::write_to$|::write::|write_extensions)", f.name) and "decode" not in f.name for f, bi, ctx in uses[k]):
            written.add(m.group(1))
    chk.floor("extension signatures written", len(written), 2)
    rd_bytes = {x for x, leaf in tab.byte_tries(allf)}
    chk.floor("extension signatures dispatched on by the reader", len(rd_bytes), 8)
    for m in sorted(written):
        ok = m in dispatched or SIGS.get(m) in rd_bytes
        chk.ob("written-extension-is-read", m, ok, "extension::decode::all does not dispatch on this signature", "%s:%d" % (allf.file, allf.line), key="written-extension-is-read|%s" % m)


def storage_flags_rule(db, chk):
    """Flags::to_storage keeps exactly the flag bits that live in the 16-bit on-disk field - stage, EXTENDED and ASSUME_VALID - and clears the path
    length: the bit set it selects (a `remove`/difference of named constants, or an intersection with a union of named constants) is computed from
    the evaluated constants and compared with the on-disk layout (at_rest::Flags)."""
    f = db.one(r"^gix_index::entry::flags::Flags::to_storage$")
    fl = Flow(f)
    def cval(defname):
        c = db.consts.get(defname)
        return c.get("v") if c else None
    def const_union(op):
        vals = []
        for r in fl.roots(op, stop_named=False):
            if r[0] == "constdef":
                v = cval(r[1])
                if v is None:
                    return None
                vals.append(v)
        if not vals:
            return None
        out = 0
        for v in vals:
            out |= v
        return out
    kept = 0xFFFFFFFF
    n_sel = 0
    for c in f.calls():
        last = c.name.split("::")[-1]
        if last in ("remove", "difference", "sub", "sub_assign") and len(c.args) >= 2:
            v = const_union(c.args[1])
            if v is None:
                chk.anchor_lost("to_storage: constant operand of %s" % last)
                return
            kept &= ~v
            n_sel += 1
        elif last in ("bitand", "intersection", "bitand_assign", "retain") and len(c.args) >= 2:
            v = const_union(c.args[1])
            if v is None:
                v = const_union(c.args[0])
            if v is None:
                chk.anchor_lost("to_storage: constant operand of %s" % last)
                return
            kept &= v
            n_sel += 1
    chk.floor("to_storage: bit-selecting operations with constant operands", n_sel, 1)
    rest = {k.split("::")[-1]: v.get("v") for k, v in db.consts.items() if "entry::flags::at_rest::Flags::" in k and v.get("adt")}
    chk.floor("at_rest::Flags constants", len(rest), 4)
    on_disk = (rest.get("STAGE_MASK", 0) | rest.get("EXTENDED", 0) | rest.get("ASSUME_VALID", 0)) & 0xFFFF
    path_len = rest.get("PATH_LEN", 0x0fff)
    got = kept & 0xFFFF
    chk.ob("storage-keeps-on-disk-flags", "Flags::to_storage", (got & on_disk) == on_disk and (got & path_len) == 0,
           "to_storage keeps bits %#06x of the 16-bit field; the on-disk flag bits are %#06x (stage %#x, EXTENDED %#x, ASSUME_VALID %#x) and the path length %#06x must be cleared"
           % (got, on_disk, rest.get("STAGE_MASK", 0), rest.get("EXTENDED", 0), rest.get("ASSUME_VALID", 0), path_len), "%s:%d" % (f.file, f.line), key="storage-flags|to_storage")


def count_what_was_written(db, chk):
    """every offset of the written file (entry padding `(count - header) % 8`, the end-of-index-entry offset, extension sizes) comes from
    CountBytes::count.  io::Write::write may accept only part of the buffer and write_all offers the rest again, so the counter has to grow by
    what the inner writer RETURNED: the value stored into `.count` derives from the result of `self.inner.write(..)` and not from the buffer,
    the store lies on the success edge of that call, and the same count is what write() returns."""
    f = db.one(r"^<gix_index::write::util::CountBytes<T> as std::io::Write>::write$")
    fl = Flow(f)
    inner = [c for c in f.calls() if c.is_(r"^std::io::Write::write$") and any(r[0] == "arg" and r[1] == 1 for r in fl.roots(c.args[0], stop_named=False))]
    chk.floor("CountBytes::write: inner.write call", len(inner), 1)
    stores = [(bi, rv, ln) for bi, si, pl, rv, ln, mc in f.assigns() if pl and pl[-1] == ".count" and pl[0] == 1]
    chk.floor("CountBytes::write: store into count", len(stores), 1)
    good = set()
    for c in inner:
        good |= fl.result_edges(c)["good"]
    for bi, rv, ln in stores:
        op = rv[1] if rv[0] == "use" else rv[2] if rv[0] in ("cast", "bin") else None
        r = fl.roots(op, stop_named=False, stop_calls=r"io::Write::write$") if isinstance(op, dict) else set()
        from_written = any(x[0] == "call" and x[1] == "std::io::Write::write" for x in r)
        from_buf = any(x[0] == "arg" and x[1] == 2 for x in r)
        after = bool(good) and fl.cut_off([bi], good)
        chk.ob("count-what-was-written", "CountBytes::write count@%d" % ln, from_written and not from_buf and after,
               "the byte counter grows by %s%s: after a short write the rest of the buffer is counted twice, padding and the end-of-index offset no longer match the file" % (
                   "the buffer length" if from_buf else "a value that is not the inner writer's result", "" if after else " before the inner write succeeded"),
               "%s:%d" % (f.file, ln), key="count-written|CountBytes::write")


def tree_cache_vs_removed_entries(db, chk):
    """State::write_to leaves out entries flagged REMOVE.  The TREE extension (cache tree) it carries was computed WITH them, and git trusts it:
    `git write-tree` / the next commit would use the stale tree id.  So whatever decides to write the TREE extension has to look at the REMOVE
    flag: the closure family (of write_extensions) that reaches extension::Tree::write_to contains a Flags::contains test against Flags::REMOVE
    (or the tree is invalidated instead - a call of a cache-tree invalidation on State is accepted as well)."""
    fam_all = [f for f in db.by_crate["gix_index"] if f.kind != "promoted" and re.search(r"State>::write_extensions(::|$)|State>::write_to(::|$)", f.name)]
    writers = [f for f in fam_all if f.calls_to(r"extension::Tree>?::write_to$|extension::tree::write::.*write_to$")]
    chk.floor("write_extensions: closure that writes the TREE extension", len(writers), 1)
    for w in writers:
        # the top-level closure of write_extensions this writer is nested in
        m = re.match(r"^(.*State>::write_(?:extensions|to)::\{closure#\d+\})", w.name)
        top = m.group(1) if m else w.name
        fam = [f for f in fam_all if f.name.startswith(top)]
        tests = 0
        for f in fam:
            fl = Flow(f)
            for c in f.calls():
                if c.is_(r"Flags>?::(contains|intersects)$") and any(r[0] == "constdef" and r[1].endswith("Flags::REMOVE") for a in c.args for r in fl.roots(a, stop_named=False)):
                    tests += 1
                if c.is_(r"::remove_tree$|::invalidate|tree_mut$"):
                    tests += 1
        chk.ob("tree-cache-not-written-over-removed-entries", "%s (%d function(s) in its closure family)" % (top.split("State>::")[-1], len(fam)), tests > 0,
               "the TREE extension is written without looking at Flags::REMOVE: entries are dropped from the file but the cache tree still contains them, and git write-tree returns the stale tree",
               "%s:%d" % (w.file, w.line), key="tree-vs-removed|write_extensions")
