"""C29 Packet-line framing — length guard before slicing (URC), limit constants and marker tables (TAB),
encoder limit check (DOM), reader buffer sizes (TAB)."""
import re
from gx import urc
from gx.flow import Flow, comparisons, upper_bounded_edges

TECHNIQUE = "untrusted-integer range checker (taint + dominating bound) over MIR, constant/table agreement, guard cut-set on the encoder"
EXPLANATION = ("Decides, for gix-packetline and its copy gix-packetline-blocking (blocking-io build): (1) no integer decoded from a "
               "4-hex-digit length prefix reaches a slice split/index without a dominating ordering comparison (debug_assert does not count); "
               "(2) MAX_LINE_LEN == MAX_DATA_LEN + U16_HEX_BYTES == 65520, the flush/delim/response-end/ERR constants have git's values and the "
               "decoder's marker table pairs each constant with its own variant, the encoders write the same constant items; (3) every length "
               "prefix emitted by the encoder is cut off from entry unless `len <= MAX_DATA_LEN` held, and Writer::write chunks by min(MAX_DATA_LEN); "
               "(4) reader buffers are sized by the MAX_LINE_LEN item; (5) in read_line_inner the largest decoded length that passes the guard, plus the constant "
               "prefix split off before it, fits MAX_LINE_LEN (constants read from evaluated MIR). Chunking independence and side-band demultiplexing order are not decided (Writer::write selects the text encoder under the same condition under which it subtracts the extra newline byte); "
               "the async-io variant compiles to coroutine state machines and is not analysed.")
SPEC = {"U16_HEX_BYTES": 4, "MAX_DATA_LEN": 65516, "MAX_LINE_LEN": 65520,
        "FLUSH_LINE": b"0000", "DELIMITER_LINE": b"0001", "RESPONSE_END_LINE": b"0002", "ERR_PREFIX": b"ERR "}
MARK = {"FLUSH_LINE": "Flush", "DELIMITER_LINE": "Delimiter", "RESPONSE_END_LINE": "ResponseEnd"}


def payload_bound_rule(db, chk, crate):
    """the bound that guards the payload split in read_line_inner is small enough for the buffer (shared with C06)"""
    rli = db.one(r"^%s::read::blocking_io::.*::read_line_inner$" % crate)
    rfl = Flow(rli)
    splits = rli.calls_to(r"::split_at_mut$")
    offs = [c.args[1]["v"] for c in splits if "v" in c.args[1]]
    var = [c for c in splits if "p" in c.args[1]]
    chk.floor("%s read_line_inner: constant prefix split + payload split" % crate, min(len(offs), len(var)), 1)
    line_len = db.const("%s::MAX_LINE_LEN" % crate)["v"]
    for c in var:
        src = {r for r in rfl.roots(c.args[1], stop_named=False) if r[0] in ("call", "arg")}
        best = None
        for cm in comparisons(rli):
            for side, other in (("a", "b"), ("b", "a")):
                if "p" not in cm[side] or "v" not in cm[other]:
                    continue
                if not (src & {r for r in rfl.roots(cm[side], stop_named=False) if r[0] in ("call", "arg")}):
                    continue
                edges = upper_bounded_edges(rli, cm, side)
                if not edges or not rfl.cut_off([c.block], edges):
                    continue
                op = cm["op"] if side == "a" else {"Lt": "Gt", "Le": "Ge", "Gt": "Lt", "Ge": "Le"}.get(cm["op"], cm["op"])
                k = cm[other]["v"] - (1 if op in ("Lt", "Ge") else 0)   # largest value that passes
                best = k if best is None else min(best, k)
        ok = best is not None and offs and best + max(offs) <= line_len
        chk.ob("payload-bound-fits-buffer", "%s read_line_inner" % crate, ok,
               "largest payload length passing the guard is %s; with the %s-byte prefix it must fit the %s-byte line buffer" % (best, max(offs) if offs else "?", line_len),
               c.where(), key="payload-bound-fits-buffer|%s" % crate)


def run(db, chk):
    writer_accounting_rule(db, chk)
    for crate in ("gix_packetline", "gix_packetline_blocking"):
        fns = db.by_crate[crate]
        chk.floor("%s functions" % crate, len(fns), 80)
        # (2) constants
        for n, want in SPEC.items():
            c = db.const("%s::%s" % (crate, n))
            got = c.get("v") if isinstance(want, int) else bytes.fromhex(c.get("bytes", ""))
            chk.ob("spec-constant", "%s::%s" % (crate, n), got == want, "is %r, git's pkt-line format says %r" % (got, want), "%s:%d" % (c["file"], c["line"]),
                   key="spec-constant|%s::%s" % (crate, n))
        # (1) URC
        u = urc.URC(db, fns)
        fs = u.run()
        chk.count("urc_functions", u.stats["fns"])
        chk.count("urc_sinks_examined", u.stats["sinks_seen"])
        for f in fs:
            chk.ob("decoded-length-bounded-before-slicing", "%s %s" % (f["fn"], f["sink"]), False,
                   "value from %s reaches %s with no dominating bound" % (f["source"], f["sink"]), "%s:%d" % (f["file"], f["line"]), key=f["key"])
        src_fns = [f for f in fns if f.calls_to(r"decode::hex_prefix$")]
        chk.floor("%s consumers of hex_prefix" % crate, len(src_fns), 2)
        for f in src_fns:
            if not any(x["fn"] == f.name for x in fs):
                chk.ob("decoded-length-bounded-before-slicing", f.name, True, "all sinks bounded")
        # (2b) marker table in hex_prefix
        hp = db.one(r"^%s::decode::hex_prefix$" % crate)
        proms = db.find(r"^%s::decode::hex_prefix::\{promoted#\d+\}$" % crate)
        pairs = {}
        for p in proms:
            pf = Flow(p)
            for bi, si, pl, rv, ln, mc in p.assigns():
                if rv[0] == "agg" and rv[1] == "tuple" and len(rv[4]) == 2:
                    defs = {r[1].split("::")[-1] for r in pf.roots(rv[4][0], stop_named=False) if r[0] == "constdef"}
                    var = {r[1].split("::")[-1] for r in pf.roots(rv[4][1], stop_named=False) if r[0] == "const" and isinstance(r[1], str) and r[1].startswith("agg:")}
                    for d in defs:
                        pairs[d] = var
        for k, v in MARK.items():
            chk.ob("marker-table", "%s hex_prefix %s" % (crate, k), pairs.get(k) == {v}, "paired with %s" % pairs.get(k), "%s:%d" % (hp.file, hp.line),
                   key="marker-table|%s|%s" % (crate, k))
        # encoders write the constant items
        for fname, cname in (("flush_to_write", "FLUSH_LINE"), ("delim_to_write", "DELIMITER_LINE"), ("response_end_to_write", "RESPONSE_END_LINE")):
            f = db.one(r"^%s::encode::blocking_io::%s$" % (crate, fname))
            fl = Flow(f)
            used = set()
            for c in f.calls():
                for a in c.args:
                    used |= {r[1].split("::")[-1] for r in fl.roots(a, stop_named=False) if r[0] == "constdef"}
            chk.ob("encoder-marker", "%s %s" % (crate, fname), used == {cname}, "writes %s" % sorted(used), "%s:%d" % (f.file, f.line), key="encoder-marker|%s|%s" % (crate, fname))
        # (3) encoder limit
        enc = db.one(r"^%s::encode::blocking_io::prefixed_and_suffixed_data_to_write$" % crate)
        efl = Flow(enc)
        sinks = enc.calls_to(r"encode::u16_to_hex$") + enc.calls_to(r"io::Write::write_all$")
        chk.floor("%s prefix/data writes in encoder" % crate, len(sinks), 3)
        good = set()
        for cmp in comparisons(enc):
            for side, other in (("a", "b"), ("b", "a")):
                o = cmp[other]
                if o.get("def", "").endswith("::MAX_DATA_LEN") or ("p" not in o and isinstance(o.get("v"), int) and o["v"] <= 65516 and o["v"] > 255):
                    e = upper_bounded_edges(enc, cmp, side)
                    if e:
                        good |= e
        chk.ob("encoder-checks-limit", "%s prefixed_and_suffixed_data_to_write" % crate, bool(good) and efl.cut_off([s.block for s in sinks], good),
               "a length prefix or payload write is reachable without `len <= MAX_DATA_LEN`", "%s:%d" % (enc.file, enc.line), key="encoder-checks-limit|%s" % crate)
        wr = db.one(r"^<%s::write::blocking_io::Writer<T> as std::io::Write>::write$" % crate)
        wfl = Flow(wr)
        mins = [c for c in wr.calls_to(r"::min$") if any(r[0] == "constdef" and r[1].endswith("::MAX_DATA_LEN") for a in c.args for r in wfl.roots(a, stop_named=False))]
        splits = wr.calls_to(r"::split_at$")
        ok = bool(mins) and bool(splits) and all(any(r[0] == "call" and r[1].endswith("::min") for r in wfl.roots(s.args[1], stop_named=False)) for s in splits)
        chk.ob("writer-chunks-by-limit", "%s Writer::write" % crate, ok, "chunk length must be min(len, MAX_DATA_LEN)", "%s:%d" % (wr.file, wr.line), key="writer-chunks-by-limit|%s" % crate)
        # (4) reader buffers: allocations sized by the MAX_LINE_LEN item, and every caller of the line reader grows its buffer to it first
        n = 0
        for f in fns:
            if "::read::" not in f.name:
                continue
            fl = Flow(f)
            sized = [c for c in f.calls() if c.is_(r"Vec::<T, A>::resize$|::from_elem$")
                     and any(r[0] == "constdef" and r[1].endswith("::MAX_LINE_LEN") for r in fl.roots(c.args[1], stop_named=False))]
            n += len(sized)
            for c in f.calls_to(r"::read_line_inner_exhaustive$"):
                ok = any(c.block in f.reach_from(s_.block) for s_ in sized)
                chk.ob("reader-buffer-size", "%s before read_line_inner_exhaustive" % f.name, ok,
                       "no resize(MAX_LINE_LEN) reaches the call that fills the buffer", c.where(), key="reader-buffer-size|%s" % f.name)
        chk.floor("%s reader buffer allocations sized MAX_LINE_LEN" % crate, n, 3)
        # streaming() guard uses MAX_LINE_LEN
        st = db.one(r"^%s::decode::streaming$" % crate)
        g = [c for c in comparisons(st) if any(c[s].get("def", "").endswith("::MAX_LINE_LEN") for s in ("a", "b"))]
        chk.ob("streaming-bounds-line", "%s decode::streaming" % crate, bool(g), "must compare the wanted length with MAX_LINE_LEN", "%s:%d" % (st.file, st.line), key="streaming-bounds-line|%s" % crate)
        payload_bound_rule(db, chk, crate)
        encoder_length_rule(db, chk, crate)
    chk.assumptions.append("async-io variant (coroutines) not analysed; blocking-io build only")


def encoder_length_rule(db, chk, crate):
    """the 4-digit length prefix an encoder emits never exceeds MAX_LINE_LEN: the value handed to u16_to_hex is, as a linear form over the lengths of
    prefix, data and suffix, bounded by the dominating limit check (BND prover: MAX_LINE_LEN - emitted >= 0 follows from the guard)."""
    from gx import bnd, lin
    f = db.one(r"^%s::encode::blocking_io::prefixed_and_suffixed_data_to_write$" % crate)
    pr = bnd.Prover(f)
    calls = f.calls_to(r"encode::u16_to_hex$")
    chk.floor("%s encoder: u16_to_hex call" % crate, len(calls), 1)
    limit = db.const("%s::MAX_LINE_LEN" % crate)["v"]
    for c in calls:
        x = pr.ev.value(c.args[0])
        e = lin.Lin({}, limit) - x
        ok = pr.prove(e, c.block)
        chk.ob("emitted-length-bounded", "%s prefixed_and_suffixed_data_to_write" % crate, ok,
               "the emitted length is %s; no dominating check bounds it by MAX_LINE_LEN (%d): lines with prefixes above fff0 can be written, which every reader rejects" % (x, limit),
               c.where(), key="emitted-length-bounded|%s" % crate)


def writer_accounting_rule(db, chk):
    """Writer::write() has to return exactly what it consumed or write_all() re-sends the rest as a packet of its own.  Per chunk it adds what the
    encoder wrote (header + data [+ NL in text mode]) and subtracts header [+ 1 in text mode].  Both sides must choose `text` under the same
    condition: the self fields / arguments that the switches selecting text_to_write vs data_to_write depend on (inside the chunk loop, `?`
    excluded) are the same as those the subtrahend derives from.  `text unless the data already ends in a newline` on one side only breaks it."""
    from gx.flow import control_switches
    n = 0
    for crate in ("gix_packetline", "gix_packetline_blocking"):
        for f in db.by_crate[crate]:
            if f.kind == "promoted" or not re.search(r"write::blocking_io::Writer<T> as std::io::Write>::write$", f.name):
                continue
            fl = Flow(f)
            enc = [c for c in f.calls() if c.is_(r"::text_to_write$|::data_to_write$")]
            if len(enc) < 2:
                chk.anchor_lost("[%s] Writer::write: text_to_write / data_to_write" % crate)
                continue
            n += 1
            lps = [l for l in f.loops() if enc[0].block in l["body"]]
            hdr = min(lps, key=lambda l: len(l["body"]))["header"] if lps else None

            def deps(op):
                return frozenset((r[1], r[2][0] if r[2] else "") for r in fl.roots(op, stop_named=False) if r[0] == "arg")
            sel = set()
            for c in enc:
                for b in control_switches(f, c.block):
                    t = f.term(b)
                    meta = t[6] if len(t) > 6 and isinstance(t[6], list) else []
                    if b == hdr or "d:QuestionMark" in meta or (lps and (b not in lps[0]["body"] or any(x not in lps[0]["body"] for x in f.succs(b)))):
                        continue   # `?`, and the loop's own exit test (`while !buf.is_empty()`), select nothing
                    sel |= deps(t[1])
            acc = set()
            for bi, si, pl, rv, ln, mc in f.assigns():
                if rv[0] == "bin" and rv[1].startswith("Sub") and (not lps or bi in lps[0]["body"]) and "p" in rv[3]:
                    acc |= deps(rv[3])
            chk.ob("writer-counts-what-it-emits", "[%s] Writer::write" % crate, sel == acc and bool(sel),
                   "the encoder variant is selected by %s but the bytes subtracted from the count depend on %s: when they disagree write() returns one byte less than it consumed and write_all() emits a stray packet" % (sorted(sel), sorted(acc)),
                   "%s:%d" % (f.file, f.line), key="writer-accounting|%s" % crate)
    chk.floor("packet-line Writer::write implementations", n, 2)
