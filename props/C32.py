"""C32 Refspec matching never panics — prefix/suffix overlap rule for glob ranges (FLOW + DOM), explicit-unwrap census."""
import re
from gx.flow import Flow, comparisons

TECHNIQUE = "range well-formedness rule: a Range whose end is a difference of lengths and whose start is an independent position needs a dominating comparison relating the two; unwrap/expect census over the matching code"
EXPLANATION = ("In gix-refspec's match_group code every `start..end` range built from a glob position and `len(name) - len(tail)` (prefix and suffix were "
               "tested separately, so they may overlap) must be dominated by an ordering comparison between a value derived from the start position and "
               "a value derived from those lengths; otherwise the later slice `name[start..end]` panics for items shorter than prefix+suffix. "
               "Explicit unwrap/expect calls reachable in match_group are enumerated and must be on the reviewed list. Equality of the produced "
               "mappings with git's is not decided.")
REVIEWED_UNWRAPS = {
    # function suffix -> reason
}


def run(db, chk):
    fns = [f for f in db.by_crate["gix_refspec"] if "::match_group::" in f.name and f.kind != "promoted"]
    chk.floor("match_group functions", len(fns), 20)
    nranges = 0
    for f in fns:
        fl = Flow(f)
        for bi, si, pl, rv, ln, mc in f.assigns():
            if rv[0] != "agg" or rv[1] != "adt" or not rv[2].endswith("ops::range::Range") or len(rv[4]) != 2:
                continue
            start, end = rv[4]
            # end must be a difference of lengths
            end_roots = fl.roots(end, stop_named=False, sites=True, stop_calls=r"::len$")
            def len_atoms(roots):
                out = set()
                for r in roots:
                    if r[0] == "call" and r[1].endswith("::len"):
                        call = [c_ for c_ in f.calls() if c_.block == r[2]][0]
                        out.add(frozenset(x for x in fl.roots(call.args[0], stop_named=False) if x[0] in ("arg", "var")))
                return out
            end_lens = len_atoms(end_roots)
            is_diff = False
            seen = set()
            work = [end["p"][0]] if "p" in end else []
            while work:
                l = work.pop()
                if l in seen:
                    continue
                seen.add(l)
                for (b2, s2, k2, p2) in fl.defs.get(l, []):
                    if k2 == "a":
                        r2 = p2[1]
                        if r2[0] == "bin" and r2[1].startswith("Sub"):
                            is_diff = True
                        for o in ([r2[1]] if r2[0] == "use" else []):
                            if "p" in o:
                                work.append(o["p"][0])
            if not (is_diff and len(end_lens) >= 2):
                continue
            nranges += 1
            def norm(r):
                return (r[0], r[1], tuple(x for x in r[2] if x not in (".0", ".1"))) if r[0] == "arg" else (r[0], r[1])
            start_roots = {norm(r) for r in fl.roots(start, stop_named=False) if r[0] in ("arg", "var")}
            end_vars = {l for l in seen}
            ok = False
            for c in comparisons(f):
                if c["op"] not in ("Lt", "Le", "Gt", "Ge") or not f.dominates(c["block"], bi):
                    continue
                ra = fl.roots(c["a"], stop_named=False, sites=True, stop_calls=r"::len$")
                rb = fl.roots(c["b"], stop_named=False, sites=True, stop_calls=r"::len$")
                def has_len(r, op):
                    return bool(len_atoms(r) & end_lens) or ("p" in op and op["p"][0] in end_vars)
                def has_start(r):
                    return bool({norm(x) for x in r if x[0] in ("arg", "var")} & start_roots)
                if (has_len(ra, c["a"]) and has_start(rb)) or (has_len(rb, c["b"]) and has_start(ra)):
                    ok = True
            chk.ob("glob-range-well-formed", "%s start..len-len range" % f.name, ok,
                   "range start (glob position) and end (len(name)-len(tail)) are never compared: prefix and suffix may overlap (e.g. `a*a` vs `a`)", "%s:%d" % (f.file, ln),
                   key="glob-range|%s" % f.name)
    chk.floor("prefix/suffix ranges found", nranges, 1)
    # unwrap census
    n = 0
    for f in fns:
        for c in f.calls():
            if c.is_(r"(Option|Result)::<[^>]*>::(unwrap|expect)$") and not any(m.startswith(("debug_assert", "assert")) for m in c.macros):
                n += 1
                suffix = f.name.split("match_group::")[-1]
                chk.ob("unwrap-reviewed", "%s %s@%d" % (suffix, c.name.split("::")[-1], c.line), suffix in REVIEWED_UNWRAPS, REVIEWED_UNWRAPS.get(suffix, "not on the reviewed list"), c.where(), key="unwrap|%s" % suffix)
    chk.set("explicit_unwraps", n)
