"""C32 Refspec matching never panics — prefix/suffix overlap rule for glob ranges (FLOW + DOM), explicit-unwrap census."""
import re
from gx.flow import Flow, comparisons, bool_switch_edges
from gx import lin

TECHNIQUE = "range well-formedness by linear length abstraction (LIN): the dominating guard's admitted set must equal `end - start >= 0` as normal forms over symbolic lengths; unwrap/expect census over the matching code"
EXPLANATION = ("In gix-refspec's match_group code every `start..end` range built from a glob position and `len(name) - len(tail)` (prefix and suffix were "
               "tested separately, so they may overlap) must be dominated by an ordering comparison whose admitted set, written as D >= 0 with D a linear form over symbolic lengths "
               "(len(x[a..]) = len(x) - a etc.), is exactly `end - start >= 0`: laxer and the later slice `name[start..end]` panics for items shorter than "
               "prefix+suffix, stricter and items git matches (empty `*` match) are dropped. "
               "Explicit unwrap/expect calls reachable in match_group are enumerated and must be on the reviewed list. The key match_remotes de-duplicates on derives from the source (full name or object id) and the destination. In Needle::matches only the needle's variant decides whether expand_partial_name is consulted, and that function tries refs/, refs/tags/, refs/heads/, refs/remotes/ and the /HEAD form. Equality of the produced "
               "mappings with git's is not decided.")
REVIEWED_UNWRAPS = {
    # function suffix -> reason
}


def run(db, chk):
    dedup_key_rule(db, chk)
    partial_name_rule(db, chk)
    partial_name_single_match_rule(db, chk)
    destination_prefix_table(db, chk)
    fns = [f for f in db.by_crate["gix_refspec"] if "::match_group::" in f.name and f.kind != "promoted"]
    chk.floor("match_group functions", len(fns), 20)
    nranges = 0
    for f in fns:
        ev = lin.Evaluator(f)
        fl = ev.fl
        for bi, si, pl, rv, ln, mc in f.assigns():
            if rv[0] != "agg" or rv[1] != "adt" or not rv[2].endswith("ops::range::Range") or len(rv[4]) != 2:
                continue
            start, end = ev.value(rv[4][0]), ev.value(rv[4][1])
            slack = end - start          # the range is well-formed iff slack >= 0
            lens = [k for k in slack.t if k[0] == "len"]
            if len(lens) < 2 or start.is_const():
                continue                  # not a `position .. len - len` range
            nranges += 1
            exact, near = [], []
            for c in comparisons(f):
                if c["op"] not in ("Lt", "Le", "Gt", "Ge") or not f.dominates(c["block"], bi):
                    continue
                e = bool_switch_edges(f, c["block"], c["res"])
                if not e:
                    continue
                te, fe = e
                on_true = fl.cut_off([bi], te, start=c["block"])
                on_false = fl.cut_off([bi], fe, start=c["block"])
                if on_true == on_false:
                    continue
                a, b = ev.value(c["a"]), ev.value(c["b"])
                one = lin.Lin({}, 1)
                d = {("Lt", True): b - a - one, ("Lt", False): a - b, ("Le", True): b - a, ("Le", False): a - b - one,
                     ("Gt", True): a - b - one, ("Gt", False): b - a, ("Ge", True): a - b, ("Ge", False): b - a - one}[(c["op"], on_true)]
                diff = d - slack
                if diff.is_const():
                    (exact if diff.c == 0 else near).append((c["line"], d, diff.c))
            if exact:
                ok, why = True, ""
            elif near:
                ln2, d, off = near[0]
                ok = False
                why = ("the guard at line %d admits exactly the items with %s >= 0, but the range start..end is well-formed iff %s >= 0: the guard is %s by %d"
                       % (ln2, d, slack, "too lax (prefix and suffix may overlap: slice panics)" if off > 0 else "too strict (items git matches are dropped)", abs(off)))
            else:
                ok = False
                why = "range start (glob position) and end (len(name)-len(tail)) are never compared: prefix and suffix may overlap (e.g. `a*a` vs `a`); range length is %s" % slack
            chk.ob("glob-range-well-formed", "%s start..len-len range" % f.name, ok, why, "%s:%d" % (f.file, ln), key="glob-range|%s" % f.name)
            chk.sample({"function": f.name, "range_length": repr(slack), "guards": [(l_, repr(d_)) for l_, d_, _ in exact + near]})
    chk.floor("prefix/suffix ranges found", nranges, 1)
    # unwrap census
    n = 0
    for f in fns:
        for c in f.calls():
            if c.is_(r"(Option|Result)::<[^>]*>::(unwrap|expect)$") and not any(m.startswith(("debug_assert", "assert")) for m in c.macros):
                n += 1
                suffix = f.name.split("match_group::")[-1]
                chk.ob("unwrap-reviewed", "%s %s@%d" % (suffix, c.name.split("::")[-1], c.line), suffix in REVIEWED_UNWRAPS, REVIEWED_UNWRAPS.get(suffix, "not on the reviewed list"), c.where(), key="unwrap|%s" % suffix)
    chk.set("explicit_unwraps", n)


def partial_name_rule(db, chk):
    """a partial name (`main`, `origin`) is tried against ALL of git's expansion rules (refs/<n>, refs/tags/<n>, refs/heads/<n>, refs/remotes/<n>,
    refs/remotes/<n>/HEAD): in Needle::matches the PartialName arm reaches expand_partial_name without any test on the item or the name in between -
    the only switch deciding whether the call happens is the one on the needle's own variant.  (A shortcut like `item ends with name` is wrong
    for the rule that appends /HEAD.)  And expand_partial_name itself tries at least those six forms."""
    from gx.flow import control_switches
    f = db.one(r"^gix_refspec::match_group::util::Needle::<'a>::matches$")
    fl = Flow(f)
    cs = f.calls_to(r"spec::expand_partial_name$")
    chk.floor("Needle::matches: expand_partial_name call", len(cs), 1)
    for c in cs:
        bad = []
        for b in control_switches(f, c.block):
            t = f.term(b)
            ds = [rv for b2, si, pl, rv, ln, mc in f.assigns() if b2 == b and "p" in t[1] and pl == [t[1]["p"][0]]]
            is_variant = bool(ds) and ds[-1][0] == "discr" and ds[-1][1][0] == 1
            if not is_variant:
                bad.append(t[5] if len(t) > 5 else "?")
        chk.ob("partial-name-tries-every-expansion", "Needle::matches expand_partial_name@%d" % c.line, not bad,
               "whether the expansion rules are consulted depends on a test at line(s) %s besides the needle's variant: names that only match through a rule that appends (refs/remotes/<name>/HEAD) are dropped" % bad,
               c.where(), key="partial-name|matches")
    e = db.one(r"^gix_refspec::spec::expand_partial_name$")
    forms = set()
    for c in e.calls():
        for a in c.args:
            if "bytes" in a:
                forms.add(bytes.fromhex(a["bytes"]))
    pfl = Flow(e)
    consts = {r[1] for c in e.calls() for a in c.args if "p" in a for r in pfl.roots(a, stop_named=False) if r[0] == "const" and isinstance(r[1], (bytes, str))}
    txt = b" ".join(x if isinstance(x, bytes) else x.encode() for x in (forms | consts))
    need = [b"refs/", b"refs/tags/", b"refs/heads/", b"refs/remotes/", b"HEAD"]
    chk.ob("partial-name-tries-every-expansion", "expand_partial_name prefixes", all(n in txt for n in need),
           "git's ref_rev_parse_rules prefixes/suffix missing: %s" % [n.decode() for n in need if n not in txt], "%s:%d" % (e.file, e.line), key="partial-name|rules")


def partial_name_single_match_rule(db, chk):
    """git resolves a partial-name source (`main`) to ONE remote reference: the one matched by the earliest of its expansion rules
    (refname_match/find_ref_by_name_abbrev).  Matching every item with a per-item predicate and pushing each hit maps refs/tags/main,
    refs/heads/main and refs/remotes/main onto the same destination.  In match_remotes the per-item loop that pushes every match must not be
    entered for partial-name specs: some test whose outcome derives from `is this a partial name` cuts it off, and on that branch a minimum over
    the rule rank is taken."""
    f = db.one(r"^gix_refspec::match_group::<impl gix_refspec::match_group::types::MatchGroup<'a>>::match_remotes$")
    fl = Flow(f)
    inner = [c for c in f.calls_to(r"Matcher::<'a>::matches_lhs$|Matcher<'a>>::matches_lhs$|::matches_lhs$") if any(c.block in l["body"] for l in f.loops())]
    item_loops = []
    for c in inner:
        lps = sorted([l for l in f.loops() if c.block in l["body"]], key=lambda l: len(l["body"]))
        if len(lps) >= 2:
            item_loops.append((c, lps[0], lps[1]))
    chk.floor("match_remotes: per-item loop that pushes every match", len(item_loops), 1)
    fam = {g.name: g for g in db.closures_of(f)}
    def is_partial_test(c):
        if c.is_(r"::has_partial_name_source$|::is_partial_name$|partial_name"):
            return True
        for a in c.args:
            for r in (fl.roots(a, stop_named=False) if "p" in a else []):
                if r[0] == "const" and isinstance(r[1], str) and r[1].startswith("agg:"):
                    g = fam.get(r[1][4:].rstrip(":"))
                    if g is not None and any(x.is_(r"::has_partial_name_source$|::is_partial_name$|partial_name") for x in g.calls()):
                        return True
        return False
    tests = [c for c in f.calls() if is_partial_test(c)]
    ranks = [c for c in f.calls() if c.is_(r"Iterator>?::(min_by_key|min_by|min)$|::min_by_key$")]
    for c, li, lo in item_loops:
        ok = False
        for t in tests:
            e = fl.result_edges(t)
            for _, tgt in e["good"]:
                if li["header"] not in f.reach_from(tgt, avoid={lo["header"]}):
                    ok = True
        chk.ob("partial-name-maps-one-source", "match_remotes per-item loop@%d" % c.line, ok and bool(ranks),
               "partial-name specs go through the loop that pushes every matching item (%d partial-name test(s), %d minimum-by-rank call(s)): `main` maps refs/tags/main, refs/heads/main and refs/remotes/main at once, git maps only the first rule that matches" % (len(tests), len(ranks)),
               c.where(), key="partial-name-single|match_remotes")


def destination_prefix_table(db, chk):
    """a destination without `refs/` is completed like git's get_local_ref(): names starting with heads/, tags/ or remotes/ get `refs/` in
    front, everything else `refs/heads/`.  The set of prefixes Needle::to_bstr_replace tests in its PartialName arm (constants handed to
    starts_with) is compared with that table."""
    f = db.one(r"^gix_refspec::match_group::util::Needle::<'a>::to_bstr_replace$")
    fl = Flow(f)
    got = set()
    for c in f.calls():
        if c.is_(r"::starts_with$|::starts_with_str$") and len(c.args) >= 2:
            for r in fl.roots(c.args[1], stop_named=False):
                if r[0] == "const" and isinstance(r[1], (bytes, str)):
                    got.add(r[1] if isinstance(r[1], bytes) else r[1].encode())
            if "bytes" in c.args[1]:
                got.add(bytes.fromhex(c.args[1]["bytes"]))
    want = {b"heads/", b"tags/", b"remotes/"}
    chk.ob("partial-destination-prefix-table", "Needle::to_bstr_replace", got == want,
           "destinations keep their own namespace for %s, git does so for %s: `main:heads/x` would be stored as refs/heads/heads/x" % (sorted(x.decode() for x in got), sorted(x.decode() for x in want)),
           "%s:%d" % (f.file, f.line), key="dst-prefix-table|to_bstr_replace")


def dedup_key_rule(db, chk):
    """match_remotes drops mappings it has seen before: two mappings are the same only if source AND destination agree. The value that is hashed
    for the `seen` set must therefore be the whole Mapping or involve its `lhs` (object-id sources have no item index: keying on (item_index, rhs)
    merges `<id1>:refs/x` and `<id2>:refs/x` and hides the conflict git reports)."""
    from gx.flow import Flow
    f = db.one(r"^gix_refspec::match_group::<impl gix_refspec::match_group::types::MatchGroup<'a>>::match_remotes$")
    fam = [f] + [g for g in db.closures_of(f) if g.kind == "closure"]
    n = 0
    for g in fam:
        gfl = Flow(g)
        for c in g.calls():
            if not c.is_(r"match_group::calculate_hash$|hash::Hash>?::hash$") or not c.args:
                continue
            fields = set()
            whole = False
            for r in gfl.roots(c.args[0] if c.is_(r"calculate_hash$") else c.args[0], stop_named=False):
                if r[0] in ("arg", "var"):
                    proj = r[2] if r[0] == "arg" else r[3]
                    fs = [x for x in proj if isinstance(x, str) and x.startswith(".") and not x[1:].isdigit()]
                    if fs:
                        fields |= set(fs)
                    elif r[0] == "arg" and r[1] >= 2:
                        whole = True
            if not c.is_(r"calculate_hash$"):
                continue
            n += 1
            ok = whole or ".lhs" in fields or not fields
            chk.ob("dedup-key-covers-source-and-destination", "%s calculate_hash@%d" % (g.name.split("::")[-1], c.line), ok,
                   "the uniqueness key is built from %s only: mappings with different sources but the same destination are merged" % sorted(fields), c.where(), key="dedup-key|match_remotes")
    chk.floor("match_remotes: uniqueness key", n, 1)
