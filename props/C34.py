"""C34 No argument injection — taint rule for URL parts reaching command arguments, safety decision table, dash check and quoting (FLOW/DOM/TAB)."""
import re
from gx import dtable
from gx.flow import Flow, comparisons, infeasible_try_edges
from gx.facts import rvalue_operands

TECHNIQUE = "taint rule (raw URL accessors / fields never reach an argument sink), decision table over ArgumentSafety variants, guard cut-set for the leading-dash path check, constant tables of the quoting and option-detection helpers"
EXPLANATION = ("In gix-transport's ssh and file transports every value passed to Prepare::arg/args, Command::arg or pushed onto `args` is traced back: it may come from "
               "constants, the numeric port, Url::user_as_argument/host_as_argument, or the repository path; never from the raw Url::user()/host()/password() accessors or "
               "those fields. The (user, host) -> argument decision table of prepare_invocation and the host table of ssh::connect are extracted and must admit only "
               "Usable values (plus the documented `user@` + dangerous host case). In the spawn handshake the push of the path is cut off from entry unless the "
               "`first byte is not '-'` edge was taken, and for ssh the pushed value is gix_quote::single(path). looks_like_command_line_option tests for b'-' and "
               "single() escapes exactly ' and !. On the (usable user, dangerous host) arm the argument handed to ssh is built by format!(user@host) on every path. What a real shell does with the quoted word is not decided. gix_url::expand_path::parse recognises the home-directory form by a prefix test on the first component and never searches the path for `~`.")
SINK = r"(gix_command::prepare::<impl gix_command::Prepare>::(arg|args)$|std::process::Command::(arg|args)$|alloc::vec::Vec::<T, A>::push$)"
RAW = r"^gix_url::Url::(user|host|password)$"
SAFE = ["Absent", "Usable", "Dangerous"]


def run(db, chk):
    home_prefix_rule(db, chk)
    fns = [f for f in db.by_crate["gix_transport"] if re.search(r"blocking_io::(ssh|file)", f.name) and f.kind != "promoted"]
    chk.floor("ssh/file transport functions", len(fns), 30)
    raw_alive = sum(1 for f in db.by_crate["gix_url"] + db.by_crate["gix_transport"] + db.by_crate["gix"] for c in f.calls() if c.is_(RAW))
    chk.floor("raw accessor pattern matches somewhere (positive control)", raw_alive, 1)
    nsinks = 0
    for f in fns:
        fl = Flow(f)
        for c in f.calls():
            if not c.is_(SINK):
                continue
            if c.is_(r"Vec::<T, A>::push$") and not any(r[0] in ("arg", "var") and any(".args" in str(x) for x in r[2:]) for r in fl.roots(c.args[0])):
                continue
            nsinks += 1
            bad = []
            for v in c.args[1:]:
                for r in fl.roots(v, stop_named=False):
                    if r[0] == "call" and re.search(RAW, r[1]):
                        bad.append(r[1])
                    if r[0] == "arg" and any(x in (".user", ".host", ".password") for x in r[2]) and "gix_url::Url" in f.locals[r[1]]:
                        bad.append("field %s" % "".join(r[2]))
            chk.ob("raw-url-part-never-an-argument", "%s %s@%d" % (f.name.split("blocking_io::")[-1][:50], c.name.split("::")[-1], c.line), not bad,
                   "argument derives from %s" % bad, c.where(), key="taint|%s|%s" % (f.name, c.name.split("::")[-1]))
    chk.floor("argument sinks examined", nsinks, 8)
    # decision table in prepare_invocation
    pi = db.one(r"ssh::program_kind::<impl gix_transport::client::blocking_io::ssh::ProgramKind>::prepare_invocation$")
    pfl = Flow(pi)
    ua = pi.calls_to(r"^gix_url::Url::user_as_argument$")
    ha = pi.calls_to(r"^gix_url::Url::host_as_argument$")
    chk.floor("user_as_argument / host_as_argument in prepare_invocation", min(len(ua), len(ha)), 1)
    final = [c for c in pi.calls_to(r"Prepare>::arg$") if pfl.derives_from_call(c.args[1], r"host_as_argument$")]
    chk.floor("host argument sink", len(final), 1)
    sel = [("user", lambda r: any(x[0] == "call" and x[1].endswith("user_as_argument") for x in r) and not any(x[0] == "call" and x[1].endswith("host_as_argument") for x in r), SAFE),
           ("host", lambda r: any(x[0] == "call" and x[1].endswith("host_as_argument") for x in r) and not any(x[0] == "call" and x[1].endswith("user_as_argument") for x in r), SAFE)]

    def sel_pred(fn, fl, which):
        def p(roots_named):
            return False
        return p
    # roots() for the selector uses stop_named=True in dtable; use a custom table with call-derived predicate
    import itertools
    sel_at = {}
    for b in pi.reachable_blocks():
        sv = pi.switch_variants(b)
        if not sv:
            continue
        r = pfl.roots(sv["place"], stop_named=False)
        u = any(x[0] == "call" and x[1].endswith("user_as_argument") for x in r)
        h = any(x[0] == "call" and x[1].endswith("host_as_argument") for x in r)
        if u != h:
            sel_at[b] = (0 if u else 1, sv["edges"])
    chk.floor("switches on the (user, host) safety pair", len(sel_at), 3)
    SPEC = {("Usable", "Usable"): True, ("Usable", "Dangerous"): True, ("Absent", "Usable"): True}
    for combo in itertools.product(SAFE, SAFE):
        seen = {0}
        st = [0]
        while st:
            b = st.pop()
            succs = pi.succs(b)
            if b in sel_at:
                i, edges = sel_at[b]
                succs = [t for t, names in edges.items() if combo[i] in names]
            for s_ in succs:
                if s_ not in seen:
                    seen.add(s_); st.append(s_)
        got = any(c.block in seen for c in final)
        want = SPEC.get(combo, False)
        chk.ob("argument-safety-table", "prepare_invocation user=%s host=%s" % combo, got == want, "host argument emitted: %s, allowed: %s" % (got, want), "%s:%d" % (pi.file, pi.line), key="safety-table|%s|%s" % combo)
    # a Dangerous host (leading '-') is only ever emitted glued behind `user@`: on the (Usable user, Dangerous host) combination the argument is
    # produced by a format! in prepare_invocation itself, or by a helper ALL of whose return paths come out of a format! - never by a path that
    # hands the host through unchanged
    combo = ("Usable", "Dangerous")
    seen = {0}
    st = [0]
    while st:
        b = st.pop()
        succs = pi.succs(b)
        if b in sel_at:
            i, edges = sel_at[b]
            succs = [t for t, names in edges.items() if combo[i] in names]
        for s_ in succs:
            if s_ not in seen:
                seen.add(s_); st.append(s_)
    producers = set()
    for c in final:
        for r in pfl.roots(c.args[1], stop_named=False, sites=True, stop_calls=r"fmt::format$|alloc::fmt::format"):
            if r[0] == "call" and len(r) > 2 and r[2] in seen and not re.search(r"::(into|to_owned|clone|deref|as_ref|borrow|from|to_string|as_str|map|ok_or\w*|branch|from_residual|must_use|unwrap\w*)$", r[1]) \
                    and not r[1].endswith("_as_argument"):
                producers.add((r[1], r[2]))
    def only_format(fn_name, depth=0):
        if re.search(r"fmt::format$", fn_name):
            return True
        g = next((x for x in db.by_crate["gix_transport"] if x.name == fn_name and x.kind != "promoted"), None)
        if g is None or depth > 2:
            return False
        gfl = Flow(g)
        rs = gfl.roots(0, stop_named=False, sites=True, stop_calls=r"fmt::format$")
        if any(r[0] == "arg" for r in rs):
            return False       # a parameter can reach the return value without going through format!
        return any(r[0] == "call" and re.search(r"fmt::format$", r[1]) for r in rs)
    bad = [n for n, b in producers if not only_format(n)]
    chk.ob("dangerous-host-only-behind-user-at", "prepare_invocation (Usable user, Dangerous host)", bool(producers) and not bad,
           "the argument for a host starting with '-' is produced by %s, which can return the host without the `user@` prefix (e.g. for an empty user name): ssh receives it as an option" % sorted(bad),
           "%s:%d" % (pi.file, pi.line), key="dangerous-host-prefix|prepare_invocation")
    # connect(): host only when Usable
    cn = db.one(r"^gix_transport::client::blocking_io::ssh::connect$")
    cfl = Flow(cn)
    hsw = [b for b in cn.reachable_blocks() if cn.switch_variants(b) and any(x[0] == "call" and x[1].endswith("host_as_argument") for x in cfl.roots(cn.switch_variants(b)["place"], stop_named=False))]
    hsink = [c for c in cn.calls_to(r"Prepare>::arg$") if cfl.derives_from_call(c.args[1], r"host_as_argument$")]
    ok = bool(hsw) and bool(hsink)
    for b in hsw:
        edges = cn.switch_variants(b)["edges"]
        for v in ("Dangerous", "Absent"):
            for t, names in edges.items():
                if v in names and "Usable" not in names:
                    if any(c.block in cn.reach_from(t, avoid_edges=infeasible_try_edges(cn)) for c in hsink):
                        ok = False
    chk.ob("argument-safety-table", "ssh::connect host", ok, "host must reach the command only from the Usable arm", "%s:%d" % (cn.file, cn.line), key="safety-table|connect")
    # handshake: dash check and quoting
    hs = db.one(r"file::SpawnProcessOnDemand as gix_transport::client::blocking_io::traits::Transport>::handshake$")
    hfl = Flow(hs)
    pushes = [c for c in hs.calls_to(r"Vec::<T, A>::push$") if any(r[0] == "arg" and ".path" in r[2] for r in hfl.roots(c.args[1], stop_named=False))]
    chk.floor("push of the repository path", len(pushes), 1)
    notdash = set()

    def consts_of(a):
        out = set(hfl.const_roots(a))
        for r in hfl.roots(a, stop_named=False):
            if r[0] == "promoted":
                for p in db.find("^" + re.escape(hs.name) + r"::\{promoted#%d\}$" % r[1]):
                    for bi, si, pl, rv, ln, mc in p.assigns():
                        for op in rvalue_operands(rv):
                            if "v" in op:
                                out.add(op["v"])
        return out

    for c in hs.calls():
        if c.is_(r"cmp::PartialEq(<.*>)?>?::(eq|ne)$") and any(45 in consts_of(a) for a in c.args) and any(any(r[0] == "arg" and ".path" in r[2] for r in hfl.roots(a, stop_named=False)) for a in c.args):
            e = hfl.result_edges(c)
            notdash |= e["bad"] if c.name.endswith("::eq") or c.path.endswith("::eq") else e["good"]
    chk.ob("path-dash-check-dominates", "handshake", bool(notdash) and hfl.cut_off([p.block for p in pushes], notdash), "the path can be pushed as an argument without the leading '-' rejection", pushes[0].where() if pushes else "", key="path-dash-check")
    quoted = any(hfl.derives_from_call(p.args[1], r"^gix_quote::single::single$|gix_quote::single$") for p in pushes)
    chk.ob("ssh-path-quoted", "handshake", quoted, "for ssh the path must be gix_quote::single(path)", "%s:%d" % (hs.file, hs.line), key="ssh-path-quoted")
    # tables
    lk = db.one(r"^gix_url::looks_like_command_line_option$")
    lc = set()
    for bi, si, pl, rv, ln, mc in lk.assigns():
        for op in rvalue_operands(rv):
            if "refv" in op:
                lc.add(op["refv"])
    for p in db.find(r"^gix_url::looks_like_command_line_option::\{promoted#\d+\}$"):
        for bi, si, pl, rv, ln, mc in p.assigns():
            for op in rvalue_operands(rv):
                if op.get("ty") == "u8" and "v" in op:
                    lc.add(op["v"])
    chk.ob("option-detection", "looks_like_command_line_option tests first()==b'-'", lc == {45} and bool(lk.calls_to(r"::first$")), "constants %s" % lc, "%s:%d" % (lk.file, lk.line), key="option-detection")
    sg = db.one(r"^gix_quote::single::single$")
    sfl = Flow(sg)
    sets = {x for c in sg.calls() for a in c.args for x in sfl.const_roots(a) if isinstance(x, bytes)}
    chk.ob("single-quote-table", "single() escapes ' and ! and wraps in '", b"'!" in sets and b"'\\" in sets and b"'" in sets, str(sets), "%s:%d" % (sg.file, sg.line), key="single-quote-table")


def home_prefix_rule(db, chk):
    """the word handed to the remote shell is the URL's path - only a LEADING `/~` or `/~user` component is rewritten (to `~/..`), because that is
    where the remote shell expands it.  gix_url::expand_path::parse therefore tests the first component with a prefix test; it does not SEARCH
    the path for a `~` (find/split_once/contains with a needle containing `~`), which would cut `/srv/git/~bob/repo.git` down to `~bob/repo.git`
    and make the remote open another repository.  Zero-expected, with a positive control for the search functions elsewhere in gix-url."""
    SEARCH = r"::find$|::find_str$|::find_byte$|::rfind\w*$|::split_once_str$|::rsplit_once_str$|::splitn_str$|::split_str$|::contains_str$|::contains$|::find_byteset$|::position$"
    f = db.one(r"^gix_url::expand_path::parse$")
    fam = [f] + list(db.closures_of(f))
    ctl = sum(1 for g in db.by_crate["gix_url"] for c in g.calls() if c.is_(SEARCH))
    chk.floor("control: substring searches recognised elsewhere in gix-url", ctl, 1)
    starts = sum(1 for g in fam for c in g.calls() if c.is_(r"::starts_with$|::starts_with_str$|::strip_prefix$|::first$"))
    hits = []
    for g in fam:
        gfl = Flow(g)
        for c in g.calls():
            if not c.is_(SEARCH):
                continue
            needles = [r[1] for a in c.args[1:] if "p" in a for r in gfl.roots(a, stop_named=False) if r[0] == "const"] + [bytes.fromhex(a["bytes"]) for a in c.args[1:] if "bytes" in a] + \
                      [a.get("v") for a in c.args[1:] if "p" not in a and "v" in a]
            if any((isinstance(n_, (bytes, str)) and (b"~" if isinstance(n_, bytes) else "~") in n_) or n_ == 126 for n_ in needles):
                hits.append(c)
    for c in hits:
        chk.ob("home-directory-form-only-at-path-start", "expand_path::parse %s@%d" % (c.name.split("::")[-1], c.line), False,
               "the path is searched for `~` anywhere instead of testing its first component: `/srv/git/~bob/repo.git` is sent to the remote as `~bob/repo.git`", c.where(),
               key="home-prefix|%s" % c.name.split("::")[-1])
    chk.ob("home-directory-form-only-at-path-start", "expand_path::parse (prefix test on the first segment)", starts >= 1,
           "no prefix test (starts_with/strip_prefix) found", "%s:%d" % (f.file, f.line), key="home-prefix|anchor")
