"""C35 Credential helper messages cannot be forged — validate-before-write (DOM cut-set + value
provenance), validate's byte tests (TAB), writer/reader key agreement (TAB)."""
from gx.flow import Flow

TECHNIQUE = "MIR guard cut-set (must-pass-through) + constant/table agreement between writer and reader"
EXPLANATION = ("Decides, on the MIR of gix-credentials: (1) every write of a key=value line in Context::write_to is cut off "
               "from function entry once the success edges of `validate` are removed, and the value written derives from "
               "the same binding that was validated; (2) `validate` tests the value for both NUL and LF and each test's "
               "true edge cannot reach the Ok return; (3) the set of keys written is a subset of the keys the decoder "
               "dispatches on, each key is paired with the field of the same name in the writer, and in the decoder every "
               "store into field K is cut off from entry once the true edges of the comparisons with \"K\" are removed. "
               "The reader cuts each line at the FIRST `=` (bounded split / split_once / find), never with an unbounded split. It does not run the encoder; round-trip equality over all values is not decided. write_key writes key, `=`, value and newline unconditionally (a present field is sent whatever its value).")

W = r"gix_credentials::protocol::context::serde::write::<impl gix_credentials::protocol::Context>::write_to$"
KEYS = [b"url", b"path", b"protocol", b"host", b"username", b"password"]


def run(db, chk):
    line_terminator_agreement_rule(db, chk)
    present_fields_are_written_rule(db, chk)
    decode_split_rule(db, chk)
    w = db.one(W)
    fl = Flow(w)
    validates = w.calls_to(r"context::serde::validate$")
    sinks = w.calls_to(r"write_to::write_key$")
    raw = [c for c in w.calls() if c.is_(r"io::Write::(write|write_all|write_fmt|write_vectored)$")]
    chk.floor("validate calls in write_to", len(validates), 2)
    chk.floor("write_key calls in write_to", len(sinks), 2)
    chk.set("functions_analysed", 4)
    good = set()
    vvars = {}
    for v in validates:
        e = fl.result_edges(v)
        chk.ob("validate-result-inspected", "write_to bb%d" % v.block, bool(e["good"]) and bool(e["bad"]),
               "result of validate must reach a switch with an error edge", v.where(), key="validate-result-inspected|write_to")
        good |= e["good"]
        vvars[v.block] = fl.root_vars(v.args[1])
    for s in sinks + raw:
        site = "%s in write_to" % s.name.split("::")[-1]
        ok = fl.cut_off([s.block], good)
        chk.ob("validate-dominates-write", site + " #%d" % (sinks + raw).index(s), ok,
               "a path from entry reaches this write without passing a successful validate()", s.where(),
               key="validate-dominates-write|write_to|%s" % s.name.split("::")[-1])
        # same value: the validating call that dominates this sink must have validated the same binding
        doms = [v for v in validates if w.dominates(v.block, s.block)]
        val_arg = s.args[2] if len(s.args) > 2 else s.args[-1]
        same = any(vvars[v.block] & fl.root_vars(val_arg) for v in doms)
        chk.ob("validated-value-is-written-value", site + " #%d" % (sinks + raw).index(s), same,
               "value written does not derive from the binding passed to the dominating validate()", s.where(),
               key="validated-value-is-written-value|write_to|%s" % s.name.split("::")[-1])
        chk.sample({"sink": s.where(), "guarded_by": [v.where() for v in doms]})
    # write_key writes key, '=', value, '\n'
    wk = db.one(r"write_to::write_key$")
    consts = set()
    for c in wk.calls_to(r"Write::write_all$"):
        consts |= Flow(wk).const_roots(c.args[1])
    chk.ob("line-format", "write_key", b"=" in consts and b"\n" in consts, "write_key must emit '=' and LF separators", "%s:%d" % (wk.file, wk.line))

    # validate tests value for 0 and 10
    v = db.one(r"gix_credentials::protocol::context::serde::validate$")
    vf = Flow(v)
    ok_blocks = [bi for bi, si, pl, rv, ln, mc in v.assigns() if pl == [0] and rv[0] == "agg" and rv[3] == "Ok"]
    chk.floor("Ok return in validate", len(ok_blocks), 1)
    found = {}
    for c in v.calls_to(r"::contains$"):
        recv = vf.roots(c.args[0], stop_named=False)
        if not any(r[0] == "arg" and r[1] == 2 for r in recv):
            continue
        needles = {x for x in vf.const_roots(c.args[1]) if isinstance(x, int)}
        e = vf.result_edges(c)
        blocked = all(not (set(ok_blocks) & v.reach_from(t)) for (_, t) in e["good"]) and bool(e["good"])
        for n in needles:
            found[n] = found.get(n, False) or blocked
    for n, what in ((0, "NUL"), (10, "LF")):
        chk.ob("validate-rejects-byte", "validate value contains %s" % what, found.get(n, False),
               "no test of the value for byte %d whose true edge excludes the Ok return" % n, "%s:%d" % (v.file, v.line),
               key="validate-rejects-byte|%d" % n)

    # writer key/field pairing, reader key dispatch
    pairs = []
    for bi, si, pl, rv, ln, mc in w.assigns():
        if rv[0] == "agg" and rv[1] == "tuple" and len(rv[4]) == 2:
            k = fl.const_roots(rv[4][0])
            fld = {r[2] for r in fl.roots(rv[4][1], stop_named=False) if r[0] == "arg" and r[1] == 1 and r[2]}
            ks = [x for x in k if isinstance(x, bytes)]
            if ks and fld:
                pairs.append((ks[0], sorted(fld)[0]))
    chk.floor("(key, field) pairs in write_to", len(pairs), 6)
    for k, fld in pairs:
        chk.ob("key-names-its-field", "write_to %s" % k.decode(), fld == (".%s" % k.decode(),), "key %r is paired with field %r" % (k, fld),
               "%s:%d" % (w.file, w.line), key="key-names-its-field|%s" % k.decode())
    d = db.one(r"gix_credentials::protocol::context::serde::decode::<impl .*Context>::from_bytes$")
    dfl = Flow(d)
    eqs = {}
    for c in d.calls_to(r"PartialEq for str>::eq$"):
        for a in c.args:
            if "bytes" in a:
                eqs.setdefault(bytes.fromhex(a["bytes"]), []).append(c)
    for k, _ in pairs:
        chk.ob("written-key-is-parsed", "from_bytes dispatches on %s" % k.decode(), k in eqs, "", "%s:%d" % (d.file, d.line), key="written-key-is-parsed|%s" % k.decode())
        if k not in eqs:
            continue
        good = set()
        for c in eqs[k]:
            good |= dfl.result_edges(c)["good"]
        stores = set()
        fname = "." + k.decode()
        for bi, si, pl, rv, ln, mc in d.assigns():
            if len(pl) == 2 and pl[1] == fname and d.locals[pl[0]].endswith("Context"):
                stores.add(bi)
            if rv[0] == "ref" and rv[1] == "mut" and len(rv[2]) == 2 and rv[2][1] == fname and d.locals[rv[2][0]].endswith("Context"):
                stores.add(bi)
        chk.ob("key-stored-into-its-field", "from_bytes field %s" % fname, bool(stores) and dfl.cut_off(stores, good),
               "a store to field %s is reachable without a successful comparison with key %r (or no store exists)" % (fname, k),
               "%s:%d" % (d.file, d.line), key="key-stored-into-its-field|%s" % k.decode())
    # decoder validates too
    dv = [c for f in [d] + db.closures_of(d) for c in f.calls_to(r"context::serde::validate$")]
    chk.floor("validate call on the decode path", len(dv), 1)


def decode_split_rule(db, chk):
    """the reader takes everything after the FIRST '=' as the value (values may contain '=': padded tokens, query strings): in Context::from_bytes
    and its helpers a line is split with a bound of two pieces (splitn(2, ..), split_once, find + slice) - never with an unbounded split whose
    later pieces would be dropped."""
    fam = [f for f in db.by_crate["gix_credentials"] if "protocol::context::serde::decode" in f.name and f.kind != "promoted"]
    chk.floor("gix_credentials decode functions", len(fam), 2)
    bounded = unbounded = 0
    for f in fam:
        for c in f.calls():
            if c.is_(r"::splitn$|::splitn_str$") and len(c.args) > 1 and "p" not in c.args[1] and c.args[1].get("v") == 2:
                bounded += 1
            elif c.is_(r"::split_once$|::split_once_str$|::find_byte$|::find$|::position$"):
                bounded += 1
            elif c.is_(r"::split$|::split_str$|::rsplit$|::rsplit_str$|::splitn$|::splitn_str$|::fields_with$") and not c.is_(r"::lines$"):
                # a split at line terminators is the line loop, not the key/value cut: skip it when the separator is a constant without '='
                seps = [r[1] for r in Flow(f).roots(c.args[-1], stop_named=False) if r[0] == "const"] if len(c.args) > 1 else []
                if seps and all(isinstance(x, (bytes, str)) and (b"=" if isinstance(x, bytes) else "=") not in x for x in seps) or \
                        seps and all(isinstance(x, int) and x != 61 for x in seps):
                    continue
                unbounded += 1
                chk.ob("value-is-everything-after-first-equals", "%s %s@%d" % (f.name.split("::")[-1], c.name.split("::")[-1], c.line), False,
                       "a key=value line is cut into more than two pieces: `password=p=q` would be read as `p`", c.where(), key="decode-split|%s" % c.name.split("::")[-1])
    chk.floor("bounded key/value split in the decoder", bounded, 1)
    if not unbounded:
        chk.ob("value-is-everything-after-first-equals", "Context::from_bytes (%d bounded split(s), no unbounded one)" % bounded, True)


def present_fields_are_written_rule(db, chk):
    """`decodes back to the same fields`: a field that is Some(..) is written, whatever its value - Some("") (the empty password the cascade sets
    for ssh URLs so that helpers do not prompt) must not silently become None.  In write_to's write_key helper the four writes (key, `=`, value,
    newline) are reached unconditionally: no switch that decides whether they happen derives from the value (only `?` error propagation of
    the writes themselves stands between them)."""
    from gx.flow import control_switches
    fs = [f for f in db.by_crate["gix_credentials"] if f.kind != "promoted" and f.name.endswith("::write_to::write_key")]
    chk.floor("Context::write_to::write_key", len(fs), 1)
    for f in fs:
        fl = Flow(f)
        ws = f.calls_to(r"io::Write::write_all$|Write>?::write_all$|::write_fmt$")
        chk.floor("write_key: writes", len(ws), 3)
        bad = []
        for c in ws:
            for b in control_switches(f, c.block):
                t = f.term(b)
                meta = t[6] if len(t) > 6 and isinstance(t[6], list) else []
                if "d:QuestionMark" in meta:
                    continue
                if any(r[0] == "arg" and r[1] in (2, 3) for r in fl.roots(t[1], stop_named=False)):
                    bad.append(t[5] if len(t) > 5 else c.line)
        chk.ob("present-field-is-always-written", "write_key (%d writes)" % len(ws), not bad,
               "whether a field is written depends on its key or value (line %s): a field holding Some(\"\") is left out and decodes back as None - helpers no longer receive `password=`" % sorted(set(bad)),
               "%s:%d" % (f.file, f.line), key="present-field-written|write_key")


def line_terminator_agreement_rule(db, chk):
    """writer and reader must agree on where a line ends.  The reader cuts the message with bstr's `lines()`, which drops `\n` AND a preceding
    `\r`; so a value that ends in a carriage return does not come back as it was sent (`username=bob\r` decodes to `bob`).  Whatever the reader's
    splitter strips at the end of a line, the writer's validate() must refuse at the end of a value: if from_bytes uses lines(), validate()
    tests for the byte 13 as well (git disallows CR in the protocol for the same reason)."""
    rd = [f for f in db.by_crate["gix_credentials"] if "protocol::context::serde::decode" in f.name and f.kind != "promoted"]
    uses_lines = any(c.is_(r"ByteSlice::lines$|::lines$") for f in rd for c in f.calls())
    v = db.one(r"^gix_credentials::protocol::context::serde::validate$")
    consts = set()
    fam = [v] + [p for n, p in getattr(v, "promoteds", {}).items() if n.startswith(v.name + "::{promoted#")]
    for g in fam:
        for bi, si, pl, rv, ln, mc in g.assigns():
            for o in __import__("gx.facts", fromlist=["x"]).rvalue_operands(rv):
                if isinstance(o, dict) and "p" not in o and isinstance(o.get("v"), int):
                    consts.add(o["v"])
        for c in g.calls():
            for a in c.args:
                if "p" not in a and isinstance(a.get("v"), int):
                    consts.add(a["v"])
                if "refv" in a and isinstance(a["refv"], int):
                    consts.add(a["refv"])
    chk.floor("validate(): byte constants tested (NUL, LF)", int(0 in consts) + int(10 in consts), 2)
    chk.ob("writer-refuses-what-the-reader-strips", "validate() vs from_bytes()", (not uses_lines) or 13 in consts,
           "from_bytes() splits with lines(), which also strips a carriage return before the newline, but validate() lets a value ending in \\r through: it is sent and decodes back without its last byte",
           "%s:%d" % (v.file, v.line), key="cr-agreement|validate")
