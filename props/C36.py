"""C36 Wildmatch — bounded recursion clause (LP)."""
from gx import lp

TECHNIQUE = "recursion-bound check over MIR: depth parameter compared with a constant that cuts off every recursive call, each call passes depth+1"
EXPLANATION = ("Decides that gix_glob::wildmatch's recursive matcher cannot recurse without bound: the same parameter is passed as `depth + 1` "
               "at every recursive call, a comparison of that parameter with the constant limit dominates every recursive call and its "
               "limit-reached edge cannot reach one, and every outside caller starts at a constant not above the limit. "
               "Agreement of match results with git's wildmatch is not decided (value-level, differential).")


def run(db, chk):
    f = db.one(r"^gix_glob::wildmatch::function::match_recursive$")
    res = lp.bounded_recursion(db, f)
    chk.floor("recursive calls in match_recursive", res.get("rec_calls", 0), 2)
    chk.ob("recursion-bounded", f.name, res["ok"], res["reason"], "%s:%d" % (f.file, res.get("guard_line") or res.get("line") or f.line), key="recursion-bounded|%s" % f.name)
    chk.sample(res)
    if res["ok"]:
        callers = lp.initial_depth_ok(db, f, res)
        chk.floor("outside callers of match_recursive", len(callers), 1)
        for g, line, v, ok in callers:
            chk.ob("initial-depth-constant", g, ok, "passes depth %r, limit %r" % (v, res["limit"]), "%s:%d" % (f.file, line), key="initial-depth-constant|%s" % g)
        chk.ob("limit-sane", "RECURSION_LIMIT", 1 <= res["limit"] <= 4096, "limit %r" % res["limit"], "", key="limit-sane")
    # other recursion cycles in the crate's matching code: none expected besides match_recursive
    rec = [g.name for g in db.by_crate["gix_glob"] if any(g.name in c.names for c in g.calls())]
    chk.ob("no-other-recursion", "gix_glob self-recursive functions", set(rec) <= {f.name}, "self-recursive: %s" % rec, "", key="no-other-recursion|gix_glob")
    chk.set("functions_analysed", len(db.by_crate["gix_glob"]))
