"""C36 Wildmatch — bounded recursion clause (LP), POSIX class table equals git's (TAB + AI-int)."""
from gx import lp

TECHNIQUE = "recursion-bound check over MIR (depth parameter compared with a constant that cuts off every recursive call, each call passes depth+1); spec-table agreement for POSIX classes by interval abstract interpretation of each class arm"
EXPLANATION = ("Decides that gix_glob::wildmatch's recursive matcher cannot recurse without bound: the same parameter is passed as `depth + 1` "
               "at every recursive call, a comparison of that parameter with the constant limit dominates every recursive call and its "
               "limit-reached edge cannot reach one, and every outside caller starts at a constant not above the limit. "
               "For each of the 12 [:class:] arms of the bracket parser (found through the byte-string decision tree) the set of text bytes that sets `matched` is "
               "computed by interval abstract interpretation of the arm over 0..=255 (std predicates modelled by their documented sets, mode-dependent branches forked) "
               "and must equal git wildmatch.c's table (ISBLANK = SP,TAB; isspace = SP,TAB,LF,CR; ...). Agreement of the remaining state machine (ranges, negation, "
               "escapes, star handling) with git is not decided (value-level, differential).")


def run(db, chk):
    f = db.one(r"^gix_glob::wildmatch::function::match_recursive$")
    class_table(db, chk, f)
    res = lp.bounded_recursion(db, f)
    chk.floor("recursive calls in match_recursive", res.get("rec_calls", 0), 2)
    chk.ob("recursion-bounded", f.name, res["ok"], res["reason"], "%s:%d" % (f.file, res.get("guard_line") or res.get("line") or f.line), key="recursion-bounded|%s" % f.name)
    chk.sample(res)
    if res["ok"]:
        callers = lp.initial_depth_ok(db, f, res)
        chk.floor("outside callers of match_recursive", len(callers), 1)
        for g, line, v, ok in callers:
            chk.ob("initial-depth-constant", g, ok, "passes depth %r, limit %r" % (v, res["limit"]), "%s:%d" % (f.file, line), key="initial-depth-constant|%s" % g)
        chk.ob("limit-sane", "RECURSION_LIMIT", 1 <= res["limit"] <= 4096, "limit %r" % res["limit"], "", key="limit-sane")
    # other recursion cycles in the crate's matching code: none expected besides match_recursive
    rec = [g.name for g in db.by_crate["gix_glob"] if any(g.name in c.names for c in g.calls())]
    chk.ob("no-other-recursion", "gix_glob self-recursive functions", set(rec) <= {f.name}, "self-recursive: %s" % rec, "", key="no-other-recursion|gix_glob")
    chk.set("functions_analysed", len(db.by_crate["gix_glob"]))


def _iv(*xs):
    out = []
    for x in xs:
        out.append((x, x) if isinstance(x, int) else x)
    return sorted(out)


_UP, _LO, _DG = (0x41, 0x5a), (0x61, 0x7a), (0x30, 0x39)
_PUNCT = [(0x21, 0x2f), (0x3a, 0x40), (0x5b, 0x60), (0x7b, 0x7e)]
# what the Rust std predicates accept (core::num u8::is_ascii_*)
STD = {r"::is_ascii_alphanumeric$": _iv(_DG, _UP, _LO), r"::is_ascii_alphabetic$": _iv(_UP, _LO), r"::is_ascii_whitespace$": _iv(0x09, 0x0a, 0x0c, 0x0d, 0x20),
       r"::is_ascii_control$": _iv((0, 0x1f), 0x7f), r"::is_ascii_digit$": _iv(_DG), r"::is_ascii_graphic$": _iv((0x21, 0x7e)), r"::is_ascii_lowercase$": _iv(_LO),
       r"::is_ascii_punctuation$": _iv(*_PUNCT), r"::is_ascii_uppercase$": _iv(_UP), r"::is_ascii_hexdigit$": _iv(_DG, (0x41, 0x46), (0x61, 0x66)),
       r"RangeInclusive<.*>::contains$|range::RangeInclusive::<Idx>::contains$|::contains$": "range-contains"}
# git wildmatch.c dowild(): ISALNUM.. with git's sane_ctype (isspace = SP,TAB,LF,CR; ISBLANK = SP,TAB; isprint = 0x20..0x7e)
GIT = {b"alnum": _iv(_DG, _UP, _LO), b"alpha": _iv(_UP, _LO), b"blank": _iv(0x09, 0x20), b"cntrl": _iv((0, 0x1f), 0x7f), b"digit": _iv(_DG),
       b"graph": _iv((0x21, 0x7e)), b"lower": _iv(_LO), b"print": _iv((0x20, 0x7e)), b"punct": _iv(*_PUNCT), b"space": _iv(0x09, 0x0a, 0x0d, 0x20),
       b"upper": _iv(_UP), b"xdigit": _iv(_DG, (0x41, 0x46), (0x61, 0x66))}
GIT_MAY = {b"upper": _iv(_UP, _LO)}     # with WM_CASEFOLD [:upper:] also accepts lower-case


def _norm(ivs):
    out = []
    for a, b in sorted(ivs):
        if out and out[-1][1] + 1 >= a:
            out[-1] = (out[-1][0], max(out[-1][1], b))
        else:
            out.append((a, b))
    return out


def class_table(db, chk, f):
    """POSIX character classes: for every [:name:] arm of the bracket parser the set of text bytes that set `matched` is computed by interval
    abstract interpretation of the arm (std predicates modelled by their documented sets) and must equal git's table."""
    from gx import tab, aiint
    tries = [(b, blk) for b, blk in tab.byte_tries(f) if b in GIT]
    chk.floor("POSIX class arms in the bracket parser", len(tries), 12)
    names = {v: int(k) for k, v in f.names.items()}
    t_ch, matched = names.get("t_ch"), names.get("matched")
    if t_ch is None or matched is None:
        chk.anchor_lost("locals t_ch / matched of match_recursive")
        return
    allb = set(f.reachable_blocks())
    # constant ranges living in promoted bodies
    env0 = {}
    for bi, si, pl, rv, ln, mc in f.assigns():
        if rv[0] == "use" and "promoted" in rv[1] and len(pl) == 1:
            pr = next((g for g in db.by_crate[f.crate] if g.name == "%s::{promoted#%s}" % (f.name, rv[1]["promoted"])), None)
            if pr is not None:
                for c in pr.calls_to(r"RangeInclusive::<Idx>::new$|RangeInclusive<.*>::new$"):
                    if all("v" in a for a in c.args[:2]):
                        env0[pl[0]] = ("range", c.args[0]["v"], c.args[1]["v"])
                for bi2, si2, pl2, rv2, ln2, mc2 in pr.assigns():
                    if rv2[0] == "agg" and rv2[2].endswith("RangeInclusive") and len(rv2[4]) >= 2 and all("v" in a for a in rv2[4][:2]):
                        env0[pl[0]] = ("range", rv2[4][0]["v"], rv2[4][1]["v"])
    for name, leaf in sorted(tries):
        try:
            pw = aiint.piecewise(f, lambda p: p == [t_ch], 0, 255, start=leaf, stop={b_ for b_ in allb if not f.dominates(leaf, b_)}, observe=matched, env0=env0, models=STD, fork_unknown=True)
        except aiint.Unsupported as e:
            chk.ob("posix-class-table", "[:%s:]" % name.decode(), False, "arm not evaluable: %s" % e, "%s:%d" % (f.file, f.line), key="posix-class|%s|unsupported" % name.decode())
            continue
        may = _norm([(a, b) for a, b, v in pw if v == 1])
        notset = _norm([(a, b) for a, b, v in pw if v != 1])
        must = _norm(aiint._minus(may, notset)) if notset else may
        want_must, want_may = GIT[name], GIT_MAY.get(name, GIT[name])
        ok = must == _norm(want_must) and may == _norm(want_may)
        def fmt(ivs):
            return ",".join("%02x" % a if a == b else "%02x-%02x" % (a, b) for a, b in ivs)
        chk.ob("posix-class-table", "[:%s:]" % name.decode(), ok, "matches text bytes {%s}%s; git's wildmatch matches {%s}" % (fmt(must), "" if may == must else " (up to {%s} depending on mode)" % fmt(may), fmt(_norm(want_must))),
               "%s:%d" % (f.file, f.line), key="posix-class|%s" % name.decode())
        chk.sample({"class": name.decode(), "must": fmt(must), "may": fmt(may)})
