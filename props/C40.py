"""C40 Refused path names — every gateway from tree/index names to paths validates components first (DOM/CG)."""
import re
from gx import facts
from gx.flow import Flow

TECHNIQUE = "gateway rule: census of gix_validate::path::component callers + guard cut-sets (the sink that materialises a name is cut off from entry once the Ok edges of the validation are removed), recorded-error provenance for the index collector"
EXPLANATION = ("Three gateways turn names from trees/indices into paths or persisted trees. (1) gix tree editor (feature tree-editor, analysed in its own build): "
               "in the write closure, write_object(tree) is reached only after the `for` loop over tree.entries, and an iteration can only continue on the Ok edge of "
               "path::component(entry.filename, symlink-mode-if-link, options). (2) gix-worktree StackDelegate::push: create_leading_directory (the only caller of "
               "std::fs::create_dir in that module) is cut off unless validate_last_component returned Ok, which calls path::component and returns its error. "
               "(3) gix-index State::from_tree: both collector callbacks call path::component, every Err edge stores into invalid_path and does not continue, and from_tree "
               "cannot construct a State on the Cancelled arm. Options come from the caller (parameter provenance). The set of code points is_dot_hfs skips equals git's HFS-ignorable table (predicate evaluated over all of Unicode by interval abstract interpretation). In the tree editor every iteration of the write loop passes the component validation (no path from the loop header to its back edge avoids it). In gix-index add_entry no switch that decides whether the mode-aware validation runs derives from the collected path. That component() refuses exactly git's set of names is otherwise not decided.")


def run(db, chk):
    hfs_ignorable_table(db, chk)
    callers = sorted({f.name for f in db.fns.values() if f.kind != "promoted" for c in f.calls() if c.is_(r"^gix_validate::path::component$")})
    chk.floor("callers of path::component in the workspace build", len(callers), 3)
    # (2) worktree
    push = db.one(r"^<gix_worktree::stack::delegate::StackDelegate<'_, '_> as gix_fs::stack::Delegate>::push$")
    pfl = Flow(push)
    v = push.calls_to(r"delegate::validate_last_component$")
    mk = push.calls_to(r"delegate::create_leading_directory$")
    chk.floor("validate_last_component call in push", len(v), 1)
    chk.floor("create_leading_directory call in push", len(mk), 1)
    good = set()
    for c in v:
        good |= pfl.result_edges(c)["good"]
    chk.ob("validate-before-mkdir", "StackDelegate::push", bool(good) and pfl.cut_off([c.block for c in mk], good) and all(any(push.dominates(x.block, m.block) for x in v) for m in mk),
           "a directory can be created for a component that was not validated", mk[0].where() if mk else "", key="validate-before-mkdir")
    vl = db.one(r"^gix_worktree::stack::delegate::validate_last_component$")
    vfl = Flow(vl)
    comp = vl.calls_to(r"^gix_validate::path::component$")
    chk.floor("component() in validate_last_component", len(comp), 1)
    for c in comp:
        e = vfl.result_edges(c)
        ok_rets = [bi for bi, si, pl, rv, ln, mc in vl.assigns() if pl == [0] and rv[0] == "agg" and rv[3] == "Ok"]
        rb = set().union(*[vl.reach_from(t) for _, t in e["bad"]]) if e["bad"] else set()
        chk.ob("validation-error-propagates", "validate_last_component", bool(e["bad"]) and not (set(ok_rets) & rb), "component() error does not reach the caller", c.where(), key="validation-error-propagates|worktree")
        chk.ob("options-from-caller", "validate_last_component", any(r[0] == "arg" and r[1] == 3 for r in vfl.roots(c.args[2], stop_named=False)), "options must be the caller's protect options", c.where(), key="options-from-caller|worktree")
        chk.ob("symlink-mode-passed", "validate_last_component", any(r[0] == "arg" and r[1] == 2 for r in vfl.roots(c.args[1], stop_named=False)), "mode must derive from the entry mode", c.where(), key="symlink-mode|worktree")
    mkdirs = sorted({f.name for f in db.by_crate["gix_worktree"] if f.kind != "promoted" for c in f.calls() if c.is_(r"^std::fs::create_dir(_all)?$")})
    chk.ob("single-mkdir-site", "gix_worktree create_dir callers", mkdirs == ["gix_worktree::stack::delegate::create_leading_directory"], str(mkdirs), key="single-mkdir-site")
    cl_callers = sorted({f.name for f in db.by_crate["gix_worktree"] for c in f.calls() if c.is_(r"delegate::create_leading_directory$")})
    # push() validates every component before it may create it; push_directory() may re-verify a component that an earlier push() validated as a leaf
    # (gix_fs::Stack pushes every non-root component through Delegate::push before it can be entered as a directory)
    pd_name = push.name.rsplit("::", 1)[0] + "::push_directory"
    chk.ob("single-mkdir-site", "callers of create_leading_directory", push.name in cl_callers and set(cl_callers) <= {push.name, pd_name}, str(cl_callers), key="single-mkdir-caller")
    # (3) index
    for nm in ("push_element", "add_entry"):
        f = db.one(r"^gix_index::init::from_tree::CollectEntries::%s$" % nm)
        fl = Flow(f)
        cs = f.calls_to(r"^gix_validate::path::component$")
        chk.floor("component() in CollectEntries::%s" % nm, len(cs), 1)
        for c in cs:
            e = fl.result_edges(c)
            stores = [bi for bi, si, pl, rv, ln, mc in f.assigns() if len(pl) >= 3 and pl[0] == 1 and pl[-1] == ".invalid_path"]
            rb = set().union(*[f.reach_from(t) for _, t in e["bad"]]) if e["bad"] else set()
            rg = set().union(*[f.reach_from(t) for _, t in e["good"]]) if e["good"] else set()
            chk.ob("invalid-name-recorded", "CollectEntries::%s" % nm, bool(stores) and bool(set(stores) & rb) and not (set(stores) & (rg - rb)), "the Err edge must store into invalid_path", c.where(), key="invalid-name-recorded|%s" % nm)
            chk.ob("options-from-caller", "CollectEntries::%s" % nm, any(r[0] == "arg" and ".validate" in r[2] for r in fl.roots(c.args[2], stop_named=False)), "", c.where(), key="options-from-caller|%s" % nm)
            # entries are pushed only on the good edge
            pushes = [x for x in f.calls() if x.is_(r"Vec::<T, A>::push$|::push_str$|::extend_from_slice$") and x.block in rb and x.block not in rg]
            chk.ob("invalid-name-not-collected", "CollectEntries::%s" % nm, not pushes, "after a refused component nothing may be collected", c.where(), key="invalid-name-not-collected|%s" % nm)
    leaf_validation_unconditional(db, chk)
    ft = db.one(r"^gix_index::init::from_tree::<impl gix_index::State>::from_tree$")
    ffl = Flow(ft)
    bf = ft.calls_to(r"gix_traverse::tree::breadthfirst::impl_::traverse$|tree::breadthfirst(::\w+)*$")
    chk.floor("breadthfirst call in from_tree", len(bf), 1)
    states = [bi for bi, si, pl, rv, ln, mc in ft.assigns() if rv[0] == "agg" and rv[2] == "gix_index::State"]
    for c in bf:
        e = ffl.result_edges(c)
        rb = set().union(*[ft.reach_from(t) for _, t in e["bad"]]) if e["bad"] else set()
        chk.ob("traversal-error-yields-no-state", "from_tree", bool(e["bad"]) and bool(states) and not (set(states) & rb), "a State can be built although the traversal was cancelled by validation", c.where(), key="traversal-error-yields-no-state")
    inv = [bi for bi, si, pl, rv, ln, mc in ft.assigns() if rv[0] == "agg" and rv[3] == "InvalidComponent"]
    chk.ob("invalid-name-reported", "from_tree builds Error::InvalidComponent", bool(inv), "", "%s:%d" % (ft.file, ft.line), key="invalid-name-reported")
    # (1) gix tree editor in its own feature build
    db2 = facts.load("gix-te")
    wc = db2.one(r"^gix::object::tree::editor::write_cursor$")
    clos = [g for g in db2.closures_of(wc) if g.kind == "closure" and g.calls_to(r"^gix_validate::path::component$")]
    chk.floor("tree-editor closure validating entries", len(clos), 1)
    for g in clos:
        gfl = Flow(g)
        comp = g.calls_to(r"^gix_validate::path::component$")
        sinks = g.calls_to(r"Repository::write_object$|::write_object$")
        chk.floor("write_object in the editor closure", len(sinks), 1)
        loops = [l for l in g.loops() if any(c.block in l["body"] for c in comp)]
        chk.ob("all-entries-validated", "editor: validation sits in a loop over tree.entries", bool(loops) and all(not any(s.block in l["body"] for s in sinks) for l in loops), "", comp[0].where(), key="all-entries-validated|loop")
        for l in loops:
            good = set()
            for c in comp:
                good |= gfl.result_edges(c)["good"]
            # with the Ok edges of validation removed, the loop cannot iterate again nor can the sink be reached from inside the iteration
            body_first = [s for s in g.succs(l["header"]) if s in l["body"]]
            r = set()
            for c in comp:
                r |= g.reach_from(c.block, avoid_edges=good)
            chk.ob("all-entries-validated", "editor: no continuation without Ok", l["header"] not in r and not any(s.block in r for s in sinks), "an entry can fail validation and the tree is still written", comp[0].where(), key="all-entries-validated|cut")
            # every entry is looked at: inside the loop no path leads from the header back to it (the next entry) without passing the validation -
            # e.g. a `continue` for sub-tree entries would let dangerous DIRECTORY names through, which exist only as entries of their parent
            byp = g.reach_from(l["header"], avoid=[c.block for c in comp])
            srcs_ = {s_ for (s_, h_) in l["backedges"]}
            chk.ob("all-entries-validated", "editor: every iteration passes the validation", not (srcs_ & byp & l["body"]),
                   "an entry can be skipped without having been validated (a path from the loop header to the next iteration bypasses gix_validate::path::component)", comp[0].where(), key="all-entries-validated|every-iteration")
            it = [c for c in g.calls() if c.is_(r"IntoIterator>?::into_iter$") and g.dominates(c.block, l["header"])]
            chk.ob("all-entries-validated", "editor: iterates tree.entries", any(any(".entries" in str(r_) for r_ in gfl.roots(c.args[0], stop_named=False)) for c in it), "", comp[0].where(), key="all-entries-validated|entries")
        for c in comp:
            chk.ob("symlink-mode-passed", "editor", gfl.derives_from_call(c.args[1], r"::is_link$"), "", c.where(), key="symlink-mode|editor")
            # the closure captures cursor.validate: resolve the upvar through the closure aggregate in write_cursor
            wfl = Flow(wc)
            upv = {}
            for bi, si, pl, rv, ln, mc in wc.assigns():
                if rv[0] == "agg" and rv[1] == "closure" and rv[2] == g.name:
                    for i, o in enumerate(rv[4]):
                        upv[".%d" % i] = wfl.roots(o, stop_named=False)
            src = set()
            for r_ in gfl.roots(c.args[2], stop_named=False):
                if r_[0] == "arg" and r_[1] == 1 and r_[2]:
                    src |= upv.get(r_[2][0], set())
            chk.ob("options-from-caller", "editor", any(x[0] == "arg" and ".validate" in x[2] for x in src), "options must be the cursor's protect options, got %s" % src, c.where(), key="options-from-caller|editor")
    chk.analysed["configs"] = ["ws", "gix-te (gix with feature tree-editor)"]


GIT_HFS_IGNORABLE = [(0x200c, 0x200f), (0x202a, 0x202e), (0x206a, 0x206f), (0xfeff, 0xfeff)]   # git utf8.c next_hfs_char()


def hfs_ignorable_table(db, chk):
    """the code points HFS+ folding ignores (and is_dot_hfs therefore skips) are git's: the filter predicate is evaluated by abstract interpretation
    over all of 0..=0x10FFFF (helpers inlined) and the set it drops must equal git's table."""
    from gx import aiint
    f = db.one(r"^gix_validate::path::is_dot_hfs$")
    preds = [g for g in db.closures_of(f) if g.kind == "closure" and g.argc == 2]
    chk.floor("is_dot_hfs: character filter closure", len(preds), 1)
    res = lambda nm: next((h for h in db.by_crate["gix_validate"] if h.name == nm and h.kind != "promoted"), None)
    done = False
    for g in preds:
        try:
            pw = aiint.piecewise(g, lambda p: p == [2, "*"], 0, 0x10FFFF, resolve=res)
        except aiint.Unsupported as e:
            continue
        vals = {v for _, _, v in pw}
        if not vals <= {0, 1}:
            continue
        dropped = [(a, b) for a, b, v in pw if v == 0]
        done = True
        chk.ob("hfs-ignorable-set", "is_dot_hfs filter", dropped == GIT_HFS_IGNORABLE,
               "code points skipped: %s; git ignores %s" % (["%x-%x" % x for x in dropped], ["%x-%x" % x for x in GIT_HFS_IGNORABLE]),
               "%s:%d" % (g.file, g.line), key="hfs-ignorable-set")
        chk.sample({"hfs_filter": g.name, "dropped": ["%x-%x" % x for x in dropped]})
    if not done:
        chk.anchor_lost("is_dot_hfs: filter predicate evaluable as char -> bool")


def leaf_validation_unconditional(db, chk):
    """git applies the symlinked-.gitmodules rule to the last component of EVERY path, at any depth.  CollectEntries::add_entry is the only place
    of from_tree that validates with the entry's mode; whether that call happens may depend on `invalid_path` (an earlier refusal) and on the
    entry's mode, but not on the path's content (depth, prefix, length): no switch that decides whether the call is reached derives from
    `self.path`.  And the name it validates is cut from `self.path` (the last component)."""
    f = db.one(r"^gix_index::init::from_tree::CollectEntries::add_entry$")
    fl = Flow(f)
    cs = [c for c in f.calls_to(r"^gix_validate::path::component$") if not ("p" not in c.args[1] and c.args[1].get("variant") == "None")]
    chk.floor("CollectEntries::add_entry: mode-aware component() call", len(cs), 1)
    for c in cs:
        bad = []
        for b in range(len(f.blocks)):
            t = f.term(b)
            if t[0] != "switch":
                continue
            succ = f.succs(b)
            reach = [c.block in f.reach_from(x) or x == c.block for x in succ]
            if not (any(reach) and not all(reach)):
                continue
            for r in fl.roots(t[1], stop_named=False):
                if r[0] == "arg" and r[1] == 1 and any(x in (".path", ".path_deque", ".path_backing") for x in r[2]):
                    bad.append("line %s: self%s" % (t[5] if len(t) > 5 else "?", "".join(r[2])))
        chk.ob("leaf-validated-at-any-depth", "add_entry component()@%d" % c.line, not bad,
               "whether the mode-aware validation runs depends on the path collected so far (%s): symlinked .gitmodules variants below the top level are accepted" % ", ".join(sorted(set(bad))[:2]),
               c.where(), key="leaf-validation|add_entry")
