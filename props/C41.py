"""C41 Checkout stays inside the worktree — no-follow opens and validated directory creation (CG who-may-call + DOM)."""
import re
from gx.flow import Flow

TECHNIQUE = "who-may-call / effect allow-list for gix-worktree-state (files are opened for writing only through options from open_options_no_follow; symlinks/removals only through the dedicated helpers), ordering and re-check rules in the directory stack"
EXPLANATION = ("In gix-worktree-state's library code: every OpenOptions::open receives options that derive from checkout::entry::open_options, which builds them from "
               "gix_features::fs::open_options_no_follow (which sets O_NOFOLLOW through custom_flags on unix) and nothing calls File::create / fs::write / OpenOptions::new / "
               "fs::copy / fs::rename; symlinks are created only through gix_fs::symlink::create; removals happen only in try_unlink_path_recursively; the per-entry "
               "effects are the enumerated allow-list. In gix-worktree's StackDelegate::push validation precedes create_leading_directory (shared with C40) and "
               "create_leading_directory re-checks symlink_metadata before reusing an existing entry and only removes a colliding entry when asked to. "
               "Directory entry: every Delegate::push_directory site of gix_fs::Stack that is not reached through the Ok edge of a Delegate::push (other than the root) "
               "obliges StackDelegate::push_directory to run create_leading_directory(false, ..) in checkout mode, bypassable only by the flag push() sets to "
               "!is_last_component or by the empty (root) path. finalize_entry may chmod by path only a path handed out by the path stack, or its request flag is the constant false. Content and mode equality with `git checkout` are not decided.")
FORBIDDEN = r"(^std::fs::File::(create|create_new|options)$|^std::fs::(write|copy|rename|hard_link|create_dir|create_dir_all|soft_link)$|^std::fs::OpenOptions::new$|unix::fs::symlink$)"
ALLOW = {  # callee -> allowed caller regex
    r"^std::fs::OpenOptions::open$": r"checkout::entry::(checkout|open_file)",
    r"^gix_fs::symlink::create$": r"checkout::entry::checkout",
    r"^gix_fs::symlink::remove$": r"checkout::entry::try_unlink_path_recursively$",
    r"^std::fs::remove_file$": r"checkout::entry::try_unlink_path_recursively$",
    r"^std::fs::remove_dir_all$": r"checkout::entry::try_unlink_path_recursively$",
    r"^std::fs::set_permissions$": r"checkout::entry::finalize_entry$",
}


def run(db, chk):
    directory_entry_rule(db, chk)
    chmod_path_rule(db, chk)
    fns = [f for f in db.by_crate["gix_worktree_state"] if f.kind != "promoted"]
    chk.floor("gix_worktree_state functions", len(fns), 60)
    forb_alive = sum(1 for c_ in ("gix_fs", "gix_odb", "gix_ref") for f in db.by_crate[c_] for c in f.calls() if c.is_(FORBIDDEN))
    chk.floor("forbidden-call pattern matches elsewhere in the workspace (positive control)", forb_alive, 1)
    n = 0
    for f in fns:
        for c in f.calls():
            if c.is_(FORBIDDEN):
                chk.ob("no-following-file-creation", "%s calls %s" % (f.name, c.name), False, "files must be created only through open_options_no_follow", c.where(), key="forbidden|%s|%s" % (f.name, c.name))
            for cal, who in ALLOW.items():
                if c.is_(cal):
                    n += 1
                    chk.ob("fs-effect-allow-list", "%s calls %s" % (f.name.split("gix_worktree_state::")[-1], c.name), re.search(who, f.name) is not None, "allowed only in %s" % who, c.where(), key="fs-effect|%s|%s" % (f.name, c.name))
    chk.floor("file-system effects in gix_worktree_state", n, 6)
    if not any(o["rule"] == "no-following-file-creation" for o in chk.obligations):
        chk.ob("no-following-file-creation", "gix_worktree_state (%d functions)" % len(fns), True)
    # every open() gets options derived from open_options()
    for f in fns:
        fl = Flow(f)
        for c in f.calls_to(r"^std::fs::OpenOptions::open$"):
            src = fl.roots(c.args[0], stop_named=False)
            ok = any(r[0] == "call" and r[1].endswith("checkout::entry::open_options") for r in src)
            if not ok and f.kind == "closure":
                # closure receives the options as captured variable / parameter: look at the parent
                par = db.fns.get(f.root)
                ok = par is not None and bool(par.calls_to(r"checkout::entry::open_options$"))
            chk.ob("open-with-no-follow-options", "%s open@%d" % (f.name.split("gix_worktree_state::")[-1], c.line), ok, "options must come from open_options()", c.where(), key="open-options|%s" % f.name)
    oo = db.one(r"^gix_worktree_state::checkout::entry::open_options$")
    chk.ob("open-with-no-follow-options", "open_options uses open_options_no_follow", bool(oo.calls_to(r"^gix_features::fs::open_options_no_follow$")) and not oo.calls_to(r"OpenOptions::new$"), "", "%s:%d" % (oo.file, oo.line), key="open-options|source")
    nf = db.one(r"^gix_features::fs::open_options_no_follow$")
    cf = nf.calls_to(r"OpenOptionsExt>?::custom_flags$")
    o_nofollow = any(a.get("v") == 0o400000 or a.get("def", "").endswith("O_NOFOLLOW") for c in cf for a in c.args)
    chk.ob("open-with-no-follow-options", "open_options_no_follow sets O_NOFOLLOW", bool(cf) and o_nofollow, "custom_flags(%s)" % [a for c in cf for a in c.args[1:]], "%s:%d" % (nf.file, nf.line), key="open-options|O_NOFOLLOW")
    # directory creation in gix_worktree
    cl = db.one(r"^gix_worktree::stack::delegate::create_leading_directory$")
    cfl = Flow(cl)
    mk = cl.calls_to(r"^std::fs::create_dir$")
    sm = cl.calls_to(r"Path::symlink_metadata$")
    chk.floor("create_dir in create_leading_directory", len(mk), 2)
    chk.floor("symlink_metadata re-check", len(sm), 1)
    # reuse of an existing entry (Ok after AlreadyExists) only on the is_dir true edge; second create_dir only after removing
    isdir = [c for c in cl.calls_to(r"Metadata::is_dir$") if cfl.derives_from_call(c.args[0], r"symlink_metadata$")]
    chk.ob("existing-entry-rechecked", "create_leading_directory", bool(isdir) and all(cl.dominates(s.block, d.block) for s in sm for d in isdir), "an existing entry must be examined with symlink_metadata (not followed) before reuse", "%s:%d" % (cl.file, cl.line), key="existing-entry-rechecked")
    rm = [c for c in cl.calls() if c.is_(r"^std::fs::remove_file$|^gix_fs::symlink::remove$")]
    second = [m for m in mk if any(cl.dominates(r.block, m.block) or m.block in cl.reach_from(r.block) for r in rm)]
    unlink_sw = [bi for bi in cl.reachable_blocks() if cl.term(bi)[0] == "switch" and "p" in cl.term(bi)[1] and cfl.roots(cl.term(bi)[1], stop_named=False) == {("arg", 5, ())}]
    ok = bool(rm) and bool(unlink_sw) and all(any(cl.dominates(s, r.block) for s in unlink_sw) for r in rm)
    chk.ob("collision-removal-only-on-request", "create_leading_directory", ok, "removing a colliding entry must be guarded by unlink_on_collision", "%s:%d" % (cl.file, cl.line), key="collision-removal-only-on-request")


def directory_entry_rule(db, chk):
    """Nothing is placed beneath a path component that the checkout delegate did not verify to be a real directory.
    gix_fs::Stack announces `entering a directory` with Delegate::push_directory.  A call site of it that is not reached through the Ok edge of a
    Delegate::push in the same traversal step (the root, and a former leaf - e.g. a symlink - that a following path uses as directory) hands the
    delegate a component it never saw as directory.  If such non-root sites exist, StackDelegate::push_directory itself must run
    create_leading_directory(false, ..) in checkout mode; the only bypasses allowed are the root (empty relative path) and a flag that
    StackDelegate::push sets to `!is_last_component`."""
    from gx.flow import Flow, comparisons
    mk = db.one(r"^gix_fs::stack::<impl gix_fs::Stack>::make_relative_path_current$")
    mfl = Flow(mk)
    pds = mk.calls_to(r"Delegate::push_directory")
    pushes = [c for c in mk.calls_to(r"Delegate::push\??(dyn)?$") if "push_directory" not in c.name]
    chk.floor("gix_fs::Stack: Delegate::push_directory call sites", len(pds), 2)
    chk.floor("gix_fs::Stack: Delegate::push call sites", len(pushes), 1)
    good = set()
    for c in pushes:
        good |= mfl.result_edges(c)["good"]
    unverified = []
    for c in pds:
        if good and mfl.cut_off([c.block], good):
            continue
        # the root site: guarded by `valid_components == 0`
        rootish = any(cm["op"] == "Eq" and (cm["a"].get("v") == 0 or cm["b"].get("v") == 0) and mk.dominates(cm["block"], c.block)
                      and any(r[0] == "arg" and ".valid_components" in r[2] for side in ("a", "b") if "p" in cm[side] for r in mfl.roots(cm[side], stop_named=False))
                      and len(mk.blocks) and mk.idom().get(c.block) == cm["block"] for cm in comparisons(mk))
        if not rootish:
            unverified.append(c)
    chk.set("push_directory_sites_not_preceded_by_push", len(unverified))
    sd = db.one(r"^<gix_worktree::stack::delegate::StackDelegate<'_, '_> as gix_fs::stack::Delegate>::push_directory$")
    sp = db.one(r"^<gix_worktree::stack::delegate::StackDelegate<'_, '_> as gix_fs::stack::Delegate>::push$")
    if not unverified:
        chk.ob("directory-entered-only-after-verification", "gix_fs::Stack announces directories only after push()", True)
        return
    sfl = Flow(sd)
    cld = [c for c in sd.calls_to(r"delegate::create_leading_directory$") if "p" not in c.args[0] and c.args[0].get("v") == 0]
    # flag fields set in push() from !is_last_component
    flags = set()
    for bi, si, pl, rv, ln, mc in sp.assigns():
        if rv[0] == "un" and rv[1] == "Not" and "p" in rv[2] and any(r[0] == "arg" and r[1] == 2 for r in Flow(sp).roots(rv[2], stop_named=False)):
            flags |= {x for x in pl[1:] if isinstance(x, str) and x.startswith(".")}
            # through a temporary
            for bi2, si2, pl2, rv2, ln2, mc2 in sp.assigns():
                if rv2[0] == "use" and "p" in rv2[1] and rv2[1]["p"] == pl and pl2[0] == 1:
                    flags |= {x for x in pl2[1:] if isinstance(x, str) and x.startswith(".")}
    ok = False
    why = "StackDelegate::push_directory never runs create_leading_directory(false, ..)"
    if cld:
        why = "create_leading_directory(false, ..) can be bypassed in checkout mode by an edge that is neither `already verified by push()` nor `root`"
        # entry into checkout mode: the edge(s) of a switch on the state's discriminant leading to the CreateDirectoryAndAttributesStack variant
        starts = []
        for bi in sd.reachable_blocks():
            sv = sd.switch_variants(bi)
            if sv and any("CreateDirectoryAndAttributesStack" in names for names in sv["edges"].values()):
                starts += [tgt for tgt, names in sv["edges"].items() if names == ["CreateDirectoryAndAttributesStack"]]
        allowed = set()
        for c in cld:
            allowed |= sfl.result_edges(c)["good"]
        for bi in sd.reachable_blocks():
            t = sd.term(bi)
            if t[0] != "switch" or "p" not in t[1]:
                continue
            rs = sfl.roots(t[1], stop_named=False)
            nonzero = {(bi, x) for v, x in t[2] if v != 0} | ({(bi, t[3])} if all(v == 0 for v, x in t[2]) else set())
            if any(r[0] == "arg" and r[1] == 1 and (set(r[2]) & flags) for r in rs):
                allowed |= nonzero            # flag set by push(): this component was verified as directory
            if any(r[0] == "call" and r[1].endswith("::is_empty") for r in rs):
                allowed |= nonzero            # the root itself (empty relative path)
        sinks = [c.block for c in sd.calls() if c.is_(r"push_directory$") and c.block not in [x.block for x in cld]]
        first = [b_ for b_ in starts if any(sd.dominates(b_, c.block) for c in cld)]
        ok = bool(first) and bool(sinks) and bool(flags) and all(sfl.cut_off(sinks, allowed, start=b_) for b_ in first)
        if ok:
            why = "ok"
    chk.ob("directory-entered-only-after-verification", "StackDelegate::push_directory (gix_fs::Stack has %d site(s) that enter a directory the delegate never saw as one)" % len(unverified),
           ok, "%s: a symlink checked out as `a` followed by an entry `a/b` makes the checkout place `b` behind the symlink, outside of the worktree" % why,
           "%s:%d" % (sd.file, sd.line), key="dir-entry-verified|StackDelegate::push_directory")


def chmod_path_rule(db, chk):
    """finalize_entry() may chmod BY PATH (symlink_metadata + set_permissions).  The only paths that have been validated and are inside the
    destination are those the path stack handed out (Stack::at_path / at_entry -> .path()).  For every call of finalize_entry the path argument
    derives from such a call - or the request can never be made: the `needs_executable_bit` of every DelayedFilteredStream that feeds that call
    is the constant false.  (The delayed-filter path passes the index-relative entry path, which is resolved against the process's working
    directory; it is dead only as long as that flag is constant.)"""
    fns = [f for f in db.by_crate["gix_worktree_state"] if f.kind != "promoted"]
    calls_ = [(f, c) for f in fns for c in f.calls() if c.is_(r"checkout::entry::finalize_entry$")]
    chk.floor("calls of finalize_entry", len(calls_), 2)
    builds = [(f, rv, ln) for f in fns for bi, si, pl, rv, ln, mc in f.assigns() if rv[0] == "agg" and rv[1] == "adt" and rv[2].endswith("DelayedFilteredStream") and "needs_executable_bit" in rv[5]]
    chk.floor("constructions of DelayedFilteredStream", len(builds), 1)
    flag_const_false = all("p" not in rv[4][rv[5].index("needs_executable_bit")] and rv[4][rv[5].index("needs_executable_bit")].get("v") == 0 for f, rv, ln in builds)
    for f, c in calls_:
        fl = Flow(f)
        fam = {g.name: g for g in db.closures_of(f)}
        roots = set(fl.roots(c.args[2], stop_named=False)) if len(c.args) > 2 and "p" in c.args[2] else set()
        validated = any(r[0] == "call" and re.search(r"Stack>?::at_path$|Stack>?::at_entry$|Platform<'_>>::path$|stack::Platform.*::path$", r[1]) for r in roots)
        # a closure handed to bool::then(..) computes the path: look into it
        for r in list(roots):
            if r[0] == "const" and isinstance(r[1], str) and r[1].startswith("agg:"):
                g = fam.get(r[1][4:].rstrip(":"))
                if g is not None and any(x.is_(r"Stack>?::at_path$|Stack>?::at_entry$") for x in g.calls()):
                    validated = True
        delayed = "delayed" in f.name or any(r[0] in ("arg", "var") and any("delayed" in str(x) for x in r) for r in roots) or "process_delayed_filter_results" in f.name
        ok = validated or (delayed and flag_const_false)
        chk.ob("chmod-only-on-validated-path", "%s finalize_entry@%d" % (f.name.split("::")[-1], c.line), ok,
               "the path finalize_entry() may chmod does not come from the validated path stack%s: a 100755 entry answered later by a delaying filter chmods `<cwd>/<entry path>` - a file outside the destination" % (
                   "" if not delayed else ", and needs_executable_bit of the delayed entry is no longer the constant false"),
               c.where(), key="chmod-path|%s" % f.name.split("::")[-1])
