"""C42 Worktree path stack — push_directory/pop_directory pairing on failure paths (PAIR)."""
from gx.flow import Flow

TECHNIQUE = "acquire/release pairing over CFG paths (typestate of a pushed component): cut-sets on the Ok/Err edges of the delegate calls, undo-completeness of the error branch"
EXPLANATION = ("In gix_fs::Stack::make_relative_path_current: (P1) push_directory for a component is unreachable from the delegate's push() of that "
               "component unless push()'s Ok edge was taken; (P2) from the Ok edge of a push_directory no pop of the current path is reachable within the "
               "same iteration without a pop_directory; (P3) the branch entered on the Err edge pops `current` and `current_relative`, decrements "
               "valid_components, restores current_is_directory=true (the parent that remains is a directory) and calls no pop_directory; (P4) the "
               "common-prefix pop loop pops both paths, calls pop_directory only under the current_is_directory test and then sets it. Attributes::push_directory sets its level flag only on paths that added a pattern list (pop_directory always pops one). On the error edge of an attributes/ignore push no pop of that state (or of the whole delegate) follows; these pushes themselves push onto their own stacks only when no error return can follow; the leaf-to-directory transition sets current_is_directory on its success edge; the root is announced once. The content "
               "of attribute/ignore state is not decided.")


def self_field_of(fl, op):
    return {r[2][0] for r in fl.roots(op, stop_named=False) if r[0] == "arg" and r[1] == 1 and r[2]}


def run(db, chk):
    attribute_level_rule(db, chk)
    failed_push_not_popped_rule(db, chk)
    transition_flag_rule(db, chk)
    root_once_rule(db, chk)
    push_is_atomic_rule(db, chk)
    f = db.one(r"^gix_fs::stack::<impl gix_fs::Stack>::make_relative_path_current$")
    fl = Flow(f)
    pushes = f.calls_to(r"stack::Delegate::push$")
    pds = f.calls_to(r"stack::Delegate::push_directory$")
    popd = f.calls_to(r"stack::Delegate::pop_directory$")
    pops = [c for c in f.calls_to(r"std::path::PathBuf::pop$")]
    cur_pops = [c for c in pops if ".current" in self_field_of(fl, c.args[0])]
    rel_pops = [c for c in pops if ".current_relative" in self_field_of(fl, c.args[0])]
    chk.floor("Delegate::push calls", len(pushes), 1)
    chk.floor("Delegate::push_directory calls", len(pds), 3)
    chk.floor("Delegate::pop_directory calls", len(popd), 1)
    chk.floor("pops of self.current", len(cur_pops), 2)
    loops = f.loops()

    def header_of(block):
        hs = [l for l in loops if block in l["body"]]
        hs.sort(key=lambda l: len(l["body"]))
        return hs[0]["header"] if hs else None

    for P in pushes:
        e = fl.result_edges(P)
        H = header_of(P.block)
        chk.ob("push-result-inspected", "push() result switched on", bool(e["good"]) and bool(e["bad"]), "", P.where(), key="push-result-inspected")
        avoid = {P.block} | ({H} if H is not None else set())
        reach_err = set()
        for (_, t) in e["bad"]:
            reach_err |= f.reach_from(t, avoid=avoid)
        reach_noinspect = f.reach_from(P.target, avoid=avoid, avoid_edges=e["good"]) if P.target is not None else set()
        later_pds = [d for d in pds if d.block in f.reach_from(P.target, avoid=avoid)]
        chk.floor("push_directory after push in the same iteration", len(later_pds), 1)
        for d in later_pds:
            chk.ob("P1 push_directory-only-after-successful-push", "push_directory @bb%d" % d.block, d.block not in reach_noinspect,
                   "push_directory is reachable although the delegate's push() of the same component failed (its result is inspected later)", d.where(), key="P1|push_directory-after-failed-push")
        # P3 undo completeness on the Err branch
        has_cur = any(c.block in reach_err for c in cur_pops)
        has_rel = any(c.block in reach_err for c in rel_pops)
        dec = any(bi in reach_err and rv[0] == "bin" and rv[1].startswith("Sub") and any("p" in o and ".valid_components" in o["p"] for o in (rv[2], rv[3]))
                  for bi, si, pl, rv, ln, mc in f.assigns())
        restore = any(bi in reach_err and pl[0] == 1 and ".current_is_directory" in pl and rv[0] == "use" and rv[1].get("v") == 1 for bi, si, pl, rv, ln, mc in f.assigns())
        nopopdir = not any(c.block in reach_err for c in popd)
        chk.ob("P3 error-branch-undoes-component", "pop current", has_cur, "", P.where(), key="P3|pop-current")
        chk.ob("P3 error-branch-undoes-component", "pop current_relative", has_rel, "", P.where(), key="P3|pop-current_relative")
        chk.ob("P3 error-branch-undoes-component", "valid_components -= 1", dec, "", P.where(), key="P3|valid_components")
        chk.ob("P3 error-branch-undoes-component", "current_is_directory restored to true", restore,
               "after a rejected push the remaining top is the parent directory; a stale `false` skips its pop_directory or repeats its push_directory on the next move", P.where(), key="P3|current_is_directory")
        chk.ob("P3 error-branch-undoes-component", "no pop_directory for a component that never got push_directory", nopopdir, "", P.where(), key="P3|no-pop_directory")
        # P2: from Ok edge of push_directory in this iteration, no pop of current without pop_directory
        for d in later_pds:
            de = fl.result_edges(d)
            chk.ob("push_directory-result-inspected", "push_directory @bb%d" % d.block, bool(de["good"]), "", d.where(), key="push_directory-result-inspected")
            r = set()
            for (_, t) in de["good"]:
                r |= f.reach_from(t, avoid={c.block for c in popd} | avoid)
            bad = [c for c in cur_pops if c.block in r]
            chk.ob("P2 pushed-directory-popped-only-with-pop_directory", "push_directory @bb%d" % d.block, not bad,
                   "after a successful push_directory the component is popped at line %s without pop_directory" % [c.line for c in bad], d.where(), key="P2|pop-without-pop_directory")
    # P4 pop loop
    for c in popd:
        H = header_of(c.block)
        body = next((l["body"] for l in loops if l["header"] == H), set())
        ok = any(x.block in body for x in cur_pops) and any(x.block in body for x in rel_pops)
        chk.ob("P4 pop-loop", "pops both paths", ok, "", c.where(), key="P4|both-pops")
        guarded = False
        for bi in body:
            t = f.term(bi)
            if t[0] == "switch" and "p" in t[1]:
                if any(r[0] == "arg" and ".current_is_directory" in r[2] for r in fl.roots(t[1], stop_named=False)):
                    zero = [x for v, x in t[2] if v == 0]
                    te = {(bi, t[3])} if zero else {(bi, x) for v, x in t[2]}
                    if c.block not in f.reach_from(H, avoid_edges=te) or True:
                        guarded = guarded or (c.block not in f.reach_from(bi, avoid_edges=te, avoid={H} - {bi}))
        chk.ob("P4 pop-loop", "pop_directory under current_is_directory test", guarded, "", c.where(), key="P4|guard")
        sets = any(bi in body and pl[0] == 1 and ".current_is_directory" in pl and rv[0] == "use" and rv[1].get("v") == 1 for bi, si, pl, rv, ln, mc in f.assigns())
        chk.ob("P4 pop-loop", "sets current_is_directory after popping", sets, "", c.where(), key="P4|set-flag")


def attribute_level_rule(db, chk):
    """one pattern-list level per directory: Attributes::pop_directory always pops one level, so Attributes::push_directory has to push exactly
    one for every non-root directory.  It tracks that with a flag (`added`); the flag may be set to true only on paths that actually added a
    pattern list - an assignment `added = true` that is reachable from the entry without passing add_patterns_buffer/add_patterns_file means a
    directory can be entered without a level and leaving it pops its parent's."""
    f = db.one(r"^gix_worktree::stack::state::attributes::<impl gix_worktree::stack::state::Attributes>::push_directory$")
    flags = f.locals_named("added")
    adds = [c for c in f.calls() if c.is_(r"::add_patterns_buffer$|::add_patterns_file$")]
    pops = db.one(r"^gix_worktree::stack::state::attributes::<impl gix_worktree::stack::state::Attributes>::pop_directory$").calls_to(r"::pop_pattern_list$")
    chk.floor("Attributes::push_directory: `added` flag / pattern-list additions / pop", min(len(flags), len(adds), len(pops)), 1)
    n = 0
    for bi, si, pl, rv, ln, mc in f.assigns():
        if len(pl) == 1 and pl[0] in flags and rv[0] == "use" and "p" not in rv[1] and rv[1].get("v") == 1:
            n += 1
            # the nearest preceding decision point: the assignment must not be reachable from entry when all additions are removed
            r = f.reach_from(0, avoid=[c.block for c in adds])
            chk.ob("level-flag-set-only-after-push", "Attributes::push_directory `added = true`@%d" % ln, bi not in r,
                   "`added` becomes true on a path that added no pattern list: the directory gets no stack level, and pop_directory() removes the level of its parent when it is left",
                   "%s:%d" % (f.file, ln), key="attr-level|push_directory")
    chk.floor("Attributes::push_directory: `added = true` assignments", n, 1)


def failed_push_not_popped_rule(db, chk):
    """a level is popped only if it was pushed: Ignore::push_directory / Attributes::push_directory push their pattern-list level as the LAST
    thing they do, so when one of them returns an error nothing of it is on the stack.  In StackDelegate::push_directory no pop_directory (of the
    delegate itself, of the ignore or of the attributes state) is reachable from the error edge of such a call - it would remove the parent
    directory's level, and every later answer (and finally `expect(\"something to pop\")`) is wrong."""
    f = db.one(r"^<gix_worktree::stack::delegate::StackDelegate<'_, '_> as gix_fs::stack::Delegate>::push_directory$")
    fl = Flow(f)
    pushes = [c for c in f.calls() if c.is_(r"state::(ignore|attributes)::<impl gix_worktree::stack::state::(Ignore|Attributes)>::push_directory$|Ignore>::push_directory$|Attributes>::push_directory$")]
    chk.floor("StackDelegate::push_directory: pushes of the attribute/ignore state", len(pushes), 3)
    pops = [c for c in f.calls() if c.is_(r"::pop_directory$")]
    for c in pushes:
        e = fl.result_edges(c)
        rb = set().union(*[f.reach_from(t) for _, t in e["bad"]]) if e["bad"] else set()
        rg = set().union(*[f.reach_from(t) for _, t in e["good"]]) if e["good"] else set()
        bad = [p for p in pops if p.block in rb and p.block not in rg]
        kind = "ignore" if "gnore" in c.name else "attributes"
        # undoing the OTHER state's successful push is fine; popping the state whose push failed (or the delegate as a whole) is not
        wrong = [p for p in bad if ("gnore" in p.name) == (kind == "ignore") or "StackDelegate" in p.name or "Delegate" in p.name]
        chk.ob("failed-push-is-not-popped", "push_directory %s.push_directory@%d" % (kind, c.line), not wrong,
               "on the error edge of this push a pop_directory follows (line %s) that removes a level the failed push never added" % [p.line for p in wrong],
               c.where(), key="failed-push-popped|%s" % kind)


def transition_flag_rule(db, chk):
    """when the previous path ended in a leaf and the next path goes THROUGH it, make_relative_path_current announces that component as a
    directory (push_directory under the `!current_is_directory` test, outside the component loop).  From then on the delegate waits for the
    matching pop_directory(), which is sent only if `current_is_directory` is set: on the success edge of that call every path to a return
    passes a store to the flag - also the early error return for `..`/absolute components."""
    from gx.flow import control_switches
    f = db.one(r"^gix_fs::stack::<impl gix_fs::Stack>::make_relative_path_current$")
    fl = Flow(f)
    in_loop = set().union(*[l["body"] for l in f.loops()]) if f.loops() else set()
    trans = []
    for c in f.calls_to(r"stack::Delegate::push_directory$"):
        if c.block in in_loop:
            continue
        deps = set()
        for b in control_switches(f, c.block):
            deps |= {r[2][0] for r in fl.roots(f.term(b)[1], stop_named=False) if r[0] == "arg" and r[1] == 1 and r[2]}
        if ".current_is_directory" in deps:
            trans.append(c)
    chk.floor("make_relative_path_current: leaf-to-directory transition", len(trans), 1)
    stores = {bi for bi, si, pl, rv, ln, mc in f.assigns() if pl and pl[-1] == ".current_is_directory" and pl[0] == 1}
    rets = {b for b in f.reachable_blocks() if f.term(b)[0] == "ret"}
    for c in trans:
        e = fl.result_edges(c)
        leak = set()
        for _, t in e["good"]:
            leak |= f.reach_from(t, avoid=stores) & rets
        chk.ob("announced-directory-is-remembered", "make_relative_path_current push_directory@%d" % c.line, bool(e["good"]) and not leak,
               "after the component was announced as a directory a return is reachable without `current_is_directory` being set: the delegate never receives the matching pop_directory() (`a/b`, then `a/b/../c`: `a` stays open for ever)",
               c.where(), key="transition-flag|make_relative_path_current")


def root_once_rule(db, chk):
    """the root directory is announced with push_directory() and never popped, so it may be announced only ONCE per stack.  `valid_components
    == 0` is also true again after the first component of a path was rejected: the announcement of the root therefore depends on a further
    piece of state that is written on its success edge (a `root was pushed` flag), not on the component count alone - otherwise every rejected
    first component adds another root level to the delegate (attributes and ignore stacks grow, pushes and pops are unbalanced)."""
    from gx.flow import control_switches
    f = db.one(r"^gix_fs::stack::<impl gix_fs::Stack>::make_relative_path_current$")
    fl = Flow(f)
    in_loop = set().union(*[l["body"] for l in f.loops()]) if f.loops() else set()
    roots_ = []
    for c in f.calls_to(r"stack::Delegate::push_directory$"):
        if c.block in in_loop:
            continue
        deps = set()
        for b in control_switches(f, c.block):
            deps |= {r[2][0] for r in fl.roots(f.term(b)[1], stop_named=False) if r[0] == "arg" and r[1] == 1 and r[2]}
        if ".valid_components" in deps:
            roots_.append((c, deps))
    chk.floor("make_relative_path_current: announcement of the root directory", len(roots_), 1)
    for c, deps in roots_:
        e = fl.result_edges(c)
        after = set().union(*[f.reach_from(t) for _, t in e["good"]]) if e["good"] else set()
        written = {pl[-1] for bi, si, pl, rv, ln, mc in f.assigns() if pl and pl[0] == 1 and isinstance(pl[-1], str) and pl[-1].startswith(".") and bi in after
                   and rv[0] == "use" and "p" not in rv[1]}
        memo = (deps - {".valid_components", ".current_is_directory"}) & written
        chk.ob("root-announced-once", "make_relative_path_current push_directory(root)@%d" % c.line, bool(memo),
               "whether the root is announced depends on %s only and nothing records that it happened: after a rejected first component (`bad/x`) the next call announces the root again - the delegate holds [root, root, ..]" % sorted(deps),
               c.where(), key="root-once|make_relative_path_current")


def push_is_atomic_rule(db, chk):
    """when Ignore::push_directory / Attributes::push_directory fail, the delegate reports the error and NO pop_directory() follows for that
    directory.  Whatever they push onto their own stacks therefore has to be pushed when nothing can fail any more: after a `Vec::push` onto
    a field of `self` no error return (`?` -> FromResidual) is reachable.  A level pushed first and orphaned by a failing load of .gitignore
    stays for ever - for an excluded directory every later path is reported as excluded."""
    n = 0
    for nm in ("ignore::<impl gix_worktree::stack::state::Ignore>", "attributes::<impl gix_worktree::stack::state::Attributes>"):
        fs = [f for f in db.by_crate["gix_worktree"] if f.kind != "promoted" and f.name.endswith("%s::push_directory" % nm)]
        if len(fs) != 1:
            chk.anchor_lost("gix_worktree %s::push_directory" % nm)
            continue
        f = fs[0]
        fl = Flow(f)
        errs = [c for c in f.calls() if c.is_(r"FromResidual<.*>>::from_residual$|::from_residual$")]
        for c in f.calls():
            if not c.is_(r"Vec::<T, A>::push$|Vec<T, A>>::push$") or not c.args:
                continue
            fields = {r[2][0] for r in fl.roots(c.args[0], stop_named=False) if r[0] == "arg" and r[1] == 1 and r[2]}
            if not fields:
                continue
            n += 1
            after = f.reach_from(c.target) if c.target is not None else set()
            late = [e for e in errs if e.block in after]
            chk.ob("directory-push-is-atomic", "%s push onto self%s@%d" % (nm.split("::")[0], sorted(fields)[0], c.line), not late,
                   "an error return (line %s) is reachable after this level was pushed and no pop_directory() will follow: the orphaned level stays on the stack" % [e.line for e in late],
                   c.where(), key="atomic-push|%s|%s" % (nm.split("::")[0], sorted(fields)[0]))
    chk.floor("pushes onto the attribute/ignore state's own stacks", n, 2)
