"""C47 Commit walks visit each commit once — test-and-set gating of queue insertions (DOM)."""
import re
from gx.flow import Flow
from props._visit_once import recv_fields, gated_by_insert, innermost_header

TECHNIQUE = "test-and-set gating rule over MIR: every insertion of an id into a work queue is dominated by a successful test-and-set of the per-id marker for the same binding, and unreachable from its `already seen` edge"
EXPLANATION = ("gix-traverse: in the simple walk (filtered/initial tips, by-commit-date and by-topology steps) every `queue.insert(key, id)` / `next.push_back(id)` "
               "is dominated by `seen.insert(id)` on the same binding and cannot be reached from its false (already present) edge within the same iteration; "
               "re-keying of already gated tips in sorting() is the one listed non-instance. In the topo walk the explore and indegree queue insertions "
               "are on the `!state.contains(FLAG)` edge and preceded by `*state |= FLAG`. The Kahn-style topo_queue push (gated by indegree) is not part of the claim. "
               "First-parent mode: in next_by_topology no path leads from a parent's seen.insert back to the parent-loop header without re-reading self.parents. "
               "In expand_topo_walk the comparison with self.min_gen (which triggers compute_indegrees_to_depth) dominates every in-degree decrement. Builder::build() stores states that carry Explored/InDegree for what it queues; Simple::sorting() consults the parents mode after filling the priority queue. Order, cut-off semantics and equality with `git rev-list` are not decided.")
EXCEPT = {"sorting": "re-keys the tips that were test-and-set when they were added (filtered()/new())"}


def run(db, chk):
    first_parent_rule(db, chk)
    topo_indegree_order_rule(db, chk)
    topo_initial_flags_rule(db, chk)
    builder_order_rule(db, chk)
    fns = [f for f in db.by_crate["gix_traverse"] if f.kind != "promoted" and f.file.endswith("commit/simple.rs")]
    chk.floor("functions in commit/simple.rs", len(fns), 10)
    n = 0
    for f in fns:
        fl = Flow(f)
        sinks = [c for c in f.calls() if (c.is_(r"PriorityQueue<K, T>>::insert$") and ".queue" in recv_fields(fl, c.args[0])) or (c.is_(r"VecDeque::<T, A>::push_back$") and ".next" in recv_fields(fl, c.args[0]))]
        gates = [c for c in f.calls() if c.is_(r"HashSet::<T, S, A>::insert$") and ".seen" in recv_fields(fl, c.args[0])]
        short = f.name.split("::")[-1]
        for s in sinks:
            n += 1
            if short in EXCEPT:
                chk.ob("listed-non-instance", "%s %s@%d" % (short, s.name.split("::")[-1], s.line), True, EXCEPT[short])
                continue
            g = gated_by_insert(f, fl, s, [s.args[-1]], gates)
            chk.ob("queue-insertion-gated-by-seen", "%s %s@%d" % (short, s.name.split("::")[-1], s.line), g is not None,
                   "an id can be queued without a successful seen.insert(id) on the same path (it would be visited twice)", s.where(), key="gated|%s|%s" % (f.name, s.name.split("::")[-1]))
    chk.floor("queue insertions in the simple walk", n, 7)
    # topo walk
    m = 0
    for nm, q, flag in (("indegree_walk_step", ".indegree_queue", "InDegree"), ("explore_walk_step", ".explore_queue", "Explored")):
        f = db.one(r"^gix_traverse::commit::topo::iter::<impl gix_traverse::commit::Topo<Find, Predicate>>::%s$" % nm)
        fl = Flow(f)
        sinks = [c for c in f.calls() if c.is_(r"PriorityQueue<K, T>>::insert$") and q in recv_fields(fl, c.args[0])]
        tests = f.calls_to(r"topo::WalkFlags>?::contains$")
        sets = f.calls_to(r"BitOrAssign>?::bitor_assign$|WalkFlags>?::bitor_assign$|WalkFlags>?::insert$")
        for s in sinks:
            m += 1
            ok = False
            for t in tests:
                e = fl.result_edges(t)
                if not e["bad"] or not f.dominates(t.block, s.block):
                    continue
                H = innermost_header(f, t.block)
                r = set()
                for (_, x) in e["good"]:
                    r |= f.reach_from(x, avoid={t.block} | ({H} if H is not None else set()))
                if s.block in r:
                    continue
                if any(f.dominates(t.block, b.block) and f.dominates(b.block, s.block) for b in sets):
                    ok = True
            chk.ob("queue-insertion-gated-by-flag", "%s %s insert@%d" % (nm, q, s.line), ok, "insertion must be on the `!state.contains(%s)` edge after setting the flag" % flag, s.where(), key="gated-flag|%s" % nm)
    chk.floor("gated topo queue insertions", m, 2)


def first_parent_rule(db, chk):
    """first-parent mode follows only first parents: in next_by_topology every loop over a commit's parents (the loops that test-and-set `seen`)
    re-tests self.parents on every iteration - no path leads from the seen.insert of one parent back to the loop header (the next parent) without
    passing through a read of the mode's discriminant."""
    f = db.one(r"^gix_traverse::commit::simple::.*::next_by_topology$")
    fl = Flow(f)
    gates = [c for c in f.calls() if c.is_(r"HashSet::<T, S, A>::insert$") and ".seen" in recv_fields(fl, c.args[0])]
    mode_blocks = {bi for bi, si, pl, rv, ln, mc in f.assigns() if rv[0] == "discr" and ".parents" in [x for x in rv[1][1:] if isinstance(x, str)]}
    chk.floor("next_by_topology: parent loops gated by seen.insert", len(gates), 2)
    chk.floor("next_by_topology: reads of the parents mode", len(mode_blocks), 2)
    for g in gates:
        loops_ = [l for l in f.loops() if g.block in l["body"]]
        if not loops_:
            chk.anchor_lost("next_by_topology: loop around seen.insert@%d" % g.line)
            continue
        lp_ = min(loops_, key=lambda l: len(l["body"]))
        r = f.reach_from(g.block, avoid=mode_blocks)
        leak = [(s_, h) for (s_, h) in lp_["backedges"] if s_ in r and s_ in lp_["body"]]
        chk.ob("first-parent-stops-after-first", "next_by_topology parent loop@%d" % g.line, not leak,
               "the next parent can be taken without re-testing Parents::First (e.g. when the first parent was already seen): first-parent mode would follow other parents",
               g.where(), key="first-parent|next_by_topology|%d" % gates.index(g))


def topo_indegree_order_rule(db, chk):
    """topological walk with lazily computed in-degrees (commit-graph generations): before a parent's in-degree is decremented, the in-degrees down to
    its generation must have been computed - the comparison of the parent's generation with self.min_gen (which triggers
    compute_indegrees_to_depth) dominates the decrement in expand_topo_walk.  Otherwise a parent reaches in-degree 1 before all its children were
    counted and is emitted early and twice, but only when a commit-graph is present."""
    from gx.flow import comparisons
    f = db.one(r"^gix_traverse::commit::topo::iter::.*::expand_topo_walk$")
    fl = Flow(f)
    decs = [(bi, ln) for bi, si, pl, rv, ln, mc in f.assigns() if rv[0] == "bin" and rv[1].startswith("Sub") and "p" not in rv[3] and rv[3].get("v") == 1]
    comp = f.calls_to(r"::compute_indegrees_to_depth$")
    chk.floor("expand_topo_walk: in-degree decrement / compute_indegrees_to_depth", min(len(decs), len(comp)), 1)
    gens = [c for c in comparisons(f) if c["op"] in ("Lt", "Le", "Gt", "Ge") and any(
        any(r[0] == "arg" and ".min_gen" in r[2] for r in fl.roots(c[s_], stop_named=False)) for s_ in ("a", "b") if "p" in c[s_])]
    chk.floor("expand_topo_walk: comparison with self.min_gen", len(gens), 1)
    for bi, ln in decs:
        ok = any(f.dominates(g["block"], bi) for g in gens)
        # the decrement must also not be able to run before the computation on the `needs computing` edge: the call lies between test and decrement
        ok = ok and all(bi not in f.reach_from(0, avoid=[g["block"] for g in gens]) for _ in (0,))
        chk.ob("indegrees-computed-before-decrement", "expand_topo_walk decrement@%d" % ln, ok,
               "a parent's in-degree is decremented on a path that has not yet compared its generation with self.min_gen (and computed the in-degrees down to it)",
               "%s:%d" % (f.file, ln), key="topo-indegree-order|expand_topo_walk")


def topo_initial_flags_rule(db, chk):
    """the walk steps keep a commit off a queue it is already on by testing a flag (`!state.contains(InDegree)` / `Explored`) - so whoever queues a
    commit has to set that flag.  Builder::build() queues every tip and end on the explore and the indegree queue: the flags it stores for them
    (every WalkFlags-typed binding that feeds `states.insert`) must derive from WalkFlags::Explored and WalkFlags::InDegree.  Without InDegree a
    tip that is also an ancestor of another tip is queued twice and its parents' in-degrees never return to 1: commits silently disappear."""
    f = db.one(r"^gix_traverse::commit::topo::init::Builder::<Find, Predicate>::build$")
    fl = Flow(f)
    for q, flag in ((".indegree_queue", "InDegree"), (".explore_queue", "Explored")):
        sinks = [c for c in f.calls() if c.is_(r"PriorityQueue<K, T>>::insert$") and q in recv_fields(fl, c.args[0])]
        chk.floor("Builder::build: insertion into %s" % q[1:], len(sinks), 1)
        for s in sinks:
            lp = [l for l in f.loops() if s.block in l["body"]]
            body = min(lp, key=lambda l: len(l["body"]))["body"] if lp else set(range(len(f.blocks)))
            st = [c for c in f.calls() if c.block in body and c.is_(r"HashMap::<K, V, S, A>::insert$|::insert$|::entry$") and ".states" in recv_fields(fl, c.args[0]) and len(c.args) == 3]
            if not st:
                chk.ob("initial-queue-entry-carries-flag", "build %s insert@%d" % (q[1:], s.line), False, "no state is stored for the queued commit in the same loop", s.where(), key="initial-flag|%s" % flag)
                continue
            want = "gix_traverse::commit::topo::WalkFlags::%s" % flag
            for c in st:
                defs_ = {r[1] for r in fl.roots(c.args[2], stop_named=False) if r[0] == "constdef"}
                ok = want in defs_
                # every named WalkFlags binding that can supply the value must carry the flag itself (tips and ends are built separately)
                bad = []
                for l in range(f.argc + 1, len(f.locals)):
                    nm = f.local_name(l)
                    if nm is None or "WalkFlags" not in f.locals[l] or f.locals[l].startswith("&"):
                        continue
                    d = {r[1] for r in fl.roots(l, stop_named=False) if r[0] == "constdef"}
                    if d and want not in d and any(x.startswith("gix_traverse::commit::topo::WalkFlags::") for x in d) and "gix_traverse::commit::topo::WalkFlags::Seen" in d:
                        bad.append(nm)
                chk.ob("initial-queue-entry-carries-flag", "build %s insert@%d" % (q[1:], s.line), ok and not bad,
                       "the state stored for a commit that build() puts on the %s does not carry WalkFlags::%s (%s): the walk step queues it a second time" % (q[1:], flag, ", ".join(bad) or "no binding derives from it"),
                       s.where(), key="initial-flag|%s" % flag)


def builder_order_rule(db, chk):
    """Simple::next reads first-parent walks from the deque `state.next` (next_by_topology) and time-sorted walks from the priority queue
    `state.queue`.  A builder method that moves the tips into the priority queue therefore has to look at the parents mode afterwards and move them
    back for Parents::First - otherwise `.parents(First).sorting(ByCommitTime)` yields an empty walk while the other call order works."""
    f = db.one(r"^gix_traverse::commit::simple::init::<impl gix_traverse::commit::Simple<Find, Predicate>>::sorting$")
    fl = Flow(f)
    ins = [c for c in f.calls() if c.is_(r"PriorityQueue<K, T>>::insert$") and ".queue" in recv_fields(fl, c.args[0])]
    nxt = db.one(r"^<gix_traverse::commit::Simple<Find, Predicate> as std::iter::Iterator>::next$|^gix_traverse::commit::simple::.*Iterator for gix_traverse::commit::Simple<Find, Predicate>>::next$")
    first_reads_deque = any(rv[0] == "discr" and ".parents" in [x for x in rv[1][1:] if isinstance(x, str)] for bi, si, pl, rv, ln, mc in nxt.assigns()) and bool(nxt.calls_to(r"::next_by_topology$"))
    chk.floor("Simple::next: dispatch on the parents mode to next_by_topology", int(first_reads_deque), 1)
    mode_blocks = {bi for bi, si, pl, rv, ln, mc in f.assigns() if rv[0] == "discr" and ".parents" in [x for x in rv[1][1:] if isinstance(x, str)]}
    back = f.calls_to(r"::queue_to_vecdeque$")
    oks = [bi for bi, si, pl, rv, ln, mc in f.assigns() if pl == [0] and rv[0] == "agg" and rv[3] == "Ok"]
    chk.floor("Simple::sorting: Ok return", len(oks), 1)
    if not ins:
        chk.ob("sorted-tips-moved-back-for-first-parent", "Simple::sorting (does not fill the priority queue)", True)
        return
    for c in ins:
        r = f.reach_from(c.block, avoid=mode_blocks)
        ok = not any(o in r for o in oks) and any(any(f.dominates(m, b.block) for m in mode_blocks) for b in back)
        chk.ob("sorted-tips-moved-back-for-first-parent", "Simple::sorting queue.insert@%d" % c.line, ok,
               "tips are moved to the priority queue and the method returns without consulting the parents mode: a first-parent walk (which reads the deque) configured before sorting() is empty",
               c.where(), key="builder-order|sorting")
