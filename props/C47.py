"""C47 Commit walks visit each commit once — test-and-set gating of queue insertions (DOM)."""
import re
from gx.flow import Flow
from props._visit_once import recv_fields, gated_by_insert, innermost_header

TECHNIQUE = "test-and-set gating rule over MIR: every insertion of an id into a work queue is dominated by a successful test-and-set of the per-id marker for the same binding, and unreachable from its `already seen` edge"
EXPLANATION = ("gix-traverse: in the simple walk (filtered/initial tips, by-commit-date and by-topology steps) every `queue.insert(key, id)` / `next.push_back(id)` "
               "is dominated by `seen.insert(id)` on the same binding and cannot be reached from its false (already present) edge within the same iteration; "
               "re-keying of already gated tips in sorting() is the one listed non-instance. In the topo walk the explore and indegree queue insertions "
               "are on the `!state.contains(FLAG)` edge and preceded by `*state |= FLAG`. The Kahn-style topo_queue push (gated by indegree) is not part of the claim. "
               "First-parent mode: in next_by_topology no path leads from a parent's seen.insert back to the parent-loop header without re-reading self.parents. "
               "In expand_topo_walk the comparison with self.min_gen (which triggers compute_indegrees_to_depth) dominates every in-degree decrement. Order, cut-off semantics and equality with `git rev-list` are not decided.")
EXCEPT = {"sorting": "re-keys the tips that were test-and-set when they were added (filtered()/new())"}


def run(db, chk):
    first_parent_rule(db, chk)
    topo_indegree_order_rule(db, chk)
    fns = [f for f in db.by_crate["gix_traverse"] if f.kind != "promoted" and f.file.endswith("commit/simple.rs")]
    chk.floor("functions in commit/simple.rs", len(fns), 10)
    n = 0
    for f in fns:
        fl = Flow(f)
        sinks = [c for c in f.calls() if (c.is_(r"PriorityQueue<K, T>>::insert$") and ".queue" in recv_fields(fl, c.args[0])) or (c.is_(r"VecDeque::<T, A>::push_back$") and ".next" in recv_fields(fl, c.args[0]))]
        gates = [c for c in f.calls() if c.is_(r"HashSet::<T, S, A>::insert$") and ".seen" in recv_fields(fl, c.args[0])]
        short = f.name.split("::")[-1]
        for s in sinks:
            n += 1
            if short in EXCEPT:
                chk.ob("listed-non-instance", "%s %s@%d" % (short, s.name.split("::")[-1], s.line), True, EXCEPT[short])
                continue
            g = gated_by_insert(f, fl, s, [s.args[-1]], gates)
            chk.ob("queue-insertion-gated-by-seen", "%s %s@%d" % (short, s.name.split("::")[-1], s.line), g is not None,
                   "an id can be queued without a successful seen.insert(id) on the same path (it would be visited twice)", s.where(), key="gated|%s|%s" % (f.name, s.name.split("::")[-1]))
    chk.floor("queue insertions in the simple walk", n, 7)
    # topo walk
    m = 0
    for nm, q, flag in (("indegree_walk_step", ".indegree_queue", "InDegree"), ("explore_walk_step", ".explore_queue", "Explored")):
        f = db.one(r"^gix_traverse::commit::topo::iter::<impl gix_traverse::commit::Topo<Find, Predicate>>::%s$" % nm)
        fl = Flow(f)
        sinks = [c for c in f.calls() if c.is_(r"PriorityQueue<K, T>>::insert$") and q in recv_fields(fl, c.args[0])]
        tests = f.calls_to(r"topo::WalkFlags>?::contains$")
        sets = f.calls_to(r"BitOrAssign>?::bitor_assign$|WalkFlags>?::bitor_assign$|WalkFlags>?::insert$")
        for s in sinks:
            m += 1
            ok = False
            for t in tests:
                e = fl.result_edges(t)
                if not e["bad"] or not f.dominates(t.block, s.block):
                    continue
                H = innermost_header(f, t.block)
                r = set()
                for (_, x) in e["good"]:
                    r |= f.reach_from(x, avoid={t.block} | ({H} if H is not None else set()))
                if s.block in r:
                    continue
                if any(f.dominates(t.block, b.block) and f.dominates(b.block, s.block) for b in sets):
                    ok = True
            chk.ob("queue-insertion-gated-by-flag", "%s %s insert@%d" % (nm, q, s.line), ok, "insertion must be on the `!state.contains(%s)` edge after setting the flag" % flag, s.where(), key="gated-flag|%s" % nm)
    chk.floor("gated topo queue insertions", m, 2)


def first_parent_rule(db, chk):
    """first-parent mode follows only first parents: in next_by_topology every loop over a commit's parents (the loops that test-and-set `seen`)
    re-tests self.parents on every iteration - no path leads from the seen.insert of one parent back to the loop header (the next parent) without
    passing through a read of the mode's discriminant."""
    f = db.one(r"^gix_traverse::commit::simple::.*::next_by_topology$")
    fl = Flow(f)
    gates = [c for c in f.calls() if c.is_(r"HashSet::<T, S, A>::insert$") and ".seen" in recv_fields(fl, c.args[0])]
    mode_blocks = {bi for bi, si, pl, rv, ln, mc in f.assigns() if rv[0] == "discr" and ".parents" in [x for x in rv[1][1:] if isinstance(x, str)]}
    chk.floor("next_by_topology: parent loops gated by seen.insert", len(gates), 2)
    chk.floor("next_by_topology: reads of the parents mode", len(mode_blocks), 2)
    for g in gates:
        loops_ = [l for l in f.loops() if g.block in l["body"]]
        if not loops_:
            chk.anchor_lost("next_by_topology: loop around seen.insert@%d" % g.line)
            continue
        lp_ = min(loops_, key=lambda l: len(l["body"]))
        r = f.reach_from(g.block, avoid=mode_blocks)
        leak = [(s_, h) for (s_, h) in lp_["backedges"] if s_ in r and s_ in lp_["body"]]
        chk.ob("first-parent-stops-after-first", "next_by_topology parent loop@%d" % g.line, not leak,
               "the next parent can be taken without re-testing Parents::First (e.g. when the first parent was already seen): first-parent mode would follow other parents",
               g.where(), key="first-parent|next_by_topology|%d" % gates.index(g))


def topo_indegree_order_rule(db, chk):
    """topological walk with lazily computed in-degrees (commit-graph generations): before a parent's in-degree is decremented, the in-degrees down to
    its generation must have been computed - the comparison of the parent's generation with self.min_gen (which triggers
    compute_indegrees_to_depth) dominates the decrement in expand_topo_walk.  Otherwise a parent reaches in-degree 1 before all its children were
    counted and is emitted early and twice, but only when a commit-graph is present."""
    from gx.flow import comparisons
    f = db.one(r"^gix_traverse::commit::topo::iter::.*::expand_topo_walk$")
    fl = Flow(f)
    decs = [(bi, ln) for bi, si, pl, rv, ln, mc in f.assigns() if rv[0] == "bin" and rv[1].startswith("Sub") and "p" not in rv[3] and rv[3].get("v") == 1]
    comp = f.calls_to(r"::compute_indegrees_to_depth$")
    chk.floor("expand_topo_walk: in-degree decrement / compute_indegrees_to_depth", min(len(decs), len(comp)), 1)
    gens = [c for c in comparisons(f) if c["op"] in ("Lt", "Le", "Gt", "Ge") and any(
        any(r[0] == "arg" and ".min_gen" in r[2] for r in fl.roots(c[s_], stop_named=False)) for s_ in ("a", "b") if "p" in c[s_])]
    chk.floor("expand_topo_walk: comparison with self.min_gen", len(gens), 1)
    for bi, ln in decs:
        ok = any(f.dominates(g["block"], bi) for g in gens)
        # the decrement must also not be able to run before the computation on the `needs computing` edge: the call lies between test and decrement
        ok = ok and all(bi not in f.reach_from(0, avoid=[g["block"] for g in gens]) for _ in (0,))
        chk.ob("indegrees-computed-before-decrement", "expand_topo_walk decrement@%d" % ln, ok,
               "a parent's in-degree is decremented on a path that has not yet compared its generation with self.min_gen (and computed the in-degrees down to it)",
               "%s:%d" % (f.file, ln), key="topo-indegree-order|expand_topo_walk")
