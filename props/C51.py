"""C51 Parallel helpers — the unsafe slice index comes from an atomic read-modify-write (FLOW), scoped threads only (CG), stop flag on error."""
import re
from gx.flow import Flow, comparisons

TECHNIQUE = "provenance rule for the raw-pointer offset (must be the Ok payload of AtomicUsize::fetch_update whose closure bounds it by the slice length), who-may-call rule for unscoped thread::spawn, error-path rule for the stop flag"
EXPLANATION = ("gix_features::parallel::in_parallel_with_slice hands each worker `&mut *ptr.add(i)`: the check requires that `i` is the result of "
               "AtomicUsize::fetch_update (an atomic RMW, so two workers can never obtain the same index), never of a plain load, that the update closure compares the old "
               "value with the captured slice length and yields old+1, that the pointer is input.as_mut_ptr() of the exclusively borrowed slice, and that an Err from "
               "the consumer sets stop_everything before returning. All worker threads of the module are spawned with spawn_scoped inside thread::scope; the two unscoped "
               "thread::spawn sites are the listed ones (EagerIter's channel-fed producer; Stepwise, which joins in Drop). Exactly-once delivery of the channel-based "
               "variants under all schedules is not decided. <Stepwise as Drop>::drop drops the receiver it takes out of self.receive_result (mem::drop or MIR drop) on every path before it joins a thread. Worker results are handed to the bounded channel with blocking sends only (no try_send/send_timeout in gix_features::parallel).")
UNSCOPED_OK = {
    "gix_features::parallel::eager_iter::EagerIter::<I>::new": "producer owns its iterator and ends when the bounded channel's receiver is dropped",
    "gix_features::parallel::reduce::stepped::Stepwise::<Reduce>::new": "handles are stored and joined in Drop for Stepwise",
}


def run(db, chk):
    results_are_delivered_rule(db, chk)
    stepwise_drop_rule(db, chk)
    root = db.one(r"^gix_features::parallel::in_parallel::in_parallel_with_slice$")
    clos = [g for g in db.closures_of(root) if g.kind == "closure"]
    adds = [(g, c) for g in clos for c in g.calls() if c.is_(r"ptr::mut_ptr::<impl \*mut T>::add$")]
    chk.floor("raw pointer add sites in in_parallel_with_slice", len(adds), 1)
    for g, c in adds:
        gfl = Flow(g)
        r = gfl.roots(c.args[1], stop_named=False)
        from_rmw = any(x[0] == "call" and re.search(r"Atomic(::<usize>|Usize)?::fetch_update$", x[1]) for x in r)
        from_load = any(x[0] == "call" and re.search(r"::load$", x[1]) for x in r)
        chk.ob("index-from-atomic-rmw", "%s ptr.add" % g.name.split("::in_parallel_with_slice")[-1], from_rmw and not from_load, "offset derives from %s" % sorted(x[1].split("::")[-1] for x in r if x[0] == "call"), c.where(), key="index-from-rmw")
        fu = [x for x in g.calls() if x.is_(r"::fetch_update$")]
        for x in fu:
            ok_ord = sum(1 for bi, si, pl, rv, ln, mc in g.assigns() if rv[0] == "agg" and rv[2].endswith("atomic::Ordering") and rv[3] == "SeqCst") >= 2
            chk.ob("rmw-seqcst", "fetch_update orderings", ok_ord, "", x.where(), key="rmw-seqcst")
    # the update closure: compares with captured len, returns x+1
    upd = [g for g in clos if any(c.is_(r"bool>::then_some$|::then_some$") for c in g.calls()) and any(cmp["op"] == "Lt" for cmp in comparisons(g))]
    chk.floor("fetch_update closure (x < len).then_some(x + 1)", len(upd), 1)
    for g in upd:
        gfl = Flow(g)
        lt = [c for c in comparisons(g) if c["op"] == "Lt"]
        bound = any(any(r[0] == "arg" and r[1] == 2 for r in gfl.roots(c["a"], stop_named=False)) and any(r[0] == "arg" and r[1] == 1 and r[2] for r in gfl.roots(c["b"], stop_named=False)) for c in lt)
        plus1 = any(rv[0] == "bin" and rv[1].startswith("Add") and rv[3].get("v") == 1 for bi, si, pl, rv, ln, mc in g.assigns())
        chk.ob("index-bounded-by-length", g.name.split("::in_parallel_with_slice")[-1], bound and plus1, "closure must be |x| (x < input_len).then_some(x + 1)", "%s:%d" % (g.file, g.line), key="index-bounded")
    # pointer provenance
    asptr = [(g, c) for g in clos + [root] for c in g.calls() if c.is_(r"::as_mut_ptr$")]
    chk.ob("pointer-from-exclusive-slice", "input.as_mut_ptr()", len(asptr) >= 1 and "&mut [I]" in root.locals[1], "first parameter type: %s" % root.locals[1], "%s:%d" % (root.file, root.line), key="pointer-provenance")
    # stop flag on error
    for g, c in adds:
        gfl = Flow(g)
        cons = [x for x in g.calls() if ("ind" in x.callee or x.is_(r"ops::function::FnMut.*::call_mut$")) and g.dominates(c.block, x.block)]
        chk.floor("consumer invocation after the pointer is formed", len(cons), 1)
        for x in cons:
            e = gfl.result_edges(x)
            stores = [s for s in g.calls() if s.is_(r"Atomic(::<bool>|Bool)?::store$")]
            errs = [bi for bi, si, pl, rv, ln, mc in g.assigns() if pl == [0] and rv[0] == "agg" and rv[3] == "Err"]
            ok = bool(e["bad"]) and bool(stores) and all(any(g.dominates(s.block, b) for s in stores) for b in errs) and bool(errs)
            chk.ob("stop-on-error", "worker sets stop_everything before returning Err", ok, "", x.where(), key="stop-on-error")
    # threads
    par = [f for f in db.by_crate["gix_features"] if "::parallel::" in f.name and f.kind != "promoted"]
    unscoped = sorted({f.name for f in par for c in f.calls() if c.is_(r"^std::thread::(functions::)?spawn$|thread::builder::Builder::spawn$|Builder::spawn_unchecked")})
    for u in unscoped:
        chk.ob("no-detached-threads", u, u in UNSCOPED_OK, UNSCOPED_OK.get(u, "unscoped thread::spawn outside the reviewed list"), key="unscoped|%s" % u)
    scoped = [(f, c) for f in par for c in f.calls() if c.is_(r"::spawn_scoped$")]
    chk.floor("spawn_scoped sites", len(scoped), 6)
    for f, c in scoped:
        rootf = db.fns.get(f.root) if f.root else f
        ok = rootf is not None and bool(rootf.calls_to(r"^std::thread::scoped::scope$"))
        chk.ob("scoped-inside-scope", "%s@%d" % (f.name.split("parallel::")[-1][:60], c.line), ok, "", c.where(), key="scoped|%s" % f.name)
    drops = [f for f in db.by_crate["gix_features"] if f.trait_item == "core::ops::drop::Drop::drop" and "Stepwise" in f.name]
    chk.ob("no-detached-threads", "Stepwise joins in Drop", bool(drops) and any(c.is_(r"JoinHandle::<T>::join$") for d in drops for c in d.calls()), "", key="stepwise-joins")


def stepwise_drop_rule(db, chk):
    """dropping a step-wise reduction terminates its threads: workers block in send() while the result receiver is alive, so <Stepwise as Drop>::drop
    must have dropped the original receiver (the value taken out of self.receive_result) on every path before it joins a thread."""
    from gx.flow import Flow
    f = db.one(r"Stepwise<Reduce> as core::ops::drop::Drop>::drop$")
    fl = Flow(f)
    takes = [c for c in f.calls_to(r"mem::(replace|take|swap)$") if any(r[0] == "arg" and ".receive_result" in r[2] for r in fl.roots(c.args[0], stop_named=False))]
    joins = f.calls_to(r"JoinHandle::<T>::join$|JoinHandle<T>>?::join$")
    chk.floor("Stepwise::drop: takes the receiver out of self / joins threads", min(len(takes), len(joins)), 1)
    if not takes or not joins:
        return
    held = set()
    for t_ in takes:
        if t_.dest:
            held.add(t_.dest[0])
    # locals the taken receiver is moved into
    changed = True
    while changed:
        changed = False
        for bi, si, pl, rv, ln, mc in f.assigns():
            if rv[0] == "use" and "p" in rv[1] and rv[1]["p"][0] in held and len(pl) == 1 and pl[0] not in held:
                held.add(pl[0]); changed = True
    dropsites = set()
    for bi in f.reachable_blocks():
        t = f.term(bi)
        if t[0] == "drop" and t[1][0] in held:
            dropsites.add(bi)
    for c in f.calls_to(r"mem::drop$"):
        if "p" in c.args[0] and c.args[0]["p"][0] in held:
            dropsites.add(c.block)
    r = f.reach_from(0, avoid=dropsites)
    early = [c for c in joins if c.block in r]
    chk.ob("receiver-dropped-before-join", "<Stepwise as Drop>::drop", bool(dropsites) and not early,
           "a thread is joined while the receiver taken out of self.receive_result is still alive: workers blocked in send() never finish and drop() waits forever",
           (early[0] if early else joins[0]).where(), key="receiver-dropped-before-join|Stepwise")


def results_are_delivered_rule(db, chk):
    """`the reducer sees every result exactly once`: worker results (per item and the per-thread finalize output) travel through a BOUNDED channel
    to the reducer, so they are handed over with the blocking `send` - a non-blocking or timed variant (try_send, send_timeout, send_deadline)
    drops a result whenever the reducer is behind, and `.ok()` hides it.  Zero-expected over gix_features::parallel (in_parallel*, reduce,
    eager/in-order iterators), with a floor on the blocking sends."""
    fns = [f for f in db.by_crate["gix_features"] if f.kind != "promoted" and "::parallel::" in f.name]
    chk.floor("functions of gix_features::parallel", len(fns), 20)
    sends = [(f, c) for f in fns for c in f.calls() if c.is_(r"Sender<T>>::send$|Sender::<T>::send$|SyncSender::<T>::send$|::send$")]
    lossy = [(f, c) for f in fns for c in f.calls() if c.is_(r"::try_send$|::send_timeout$|::send_deadline$|::try_send_\w+$")]
    chk.floor("blocking sends of results in gix_features::parallel", len(sends), 3)
    for f, c in lossy:
        chk.ob("results-sent-blocking", "%s %s@%d" % (f.name.split("gix_features::parallel::")[-1][:60], c.name.split("::")[-1], c.line), False,
               "a result is handed to the bounded channel without waiting for room: when the reducer is behind it is dropped and the call still returns Ok",
               c.where(), key="lossy-send|%s" % c.name.split("::")[-1])
    if not lossy:
        chk.ob("results-sent-blocking", "gix_features::parallel (%d blocking sends, no try_send/send_timeout)" % len(sends), True)
