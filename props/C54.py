"""C54 Connectivity check visits each object once — test-and-set gating of descents and reports (DOM)."""
from gx.flow import Flow
from props._visit_once import recv_fields, gated_by_insert

TECHNIQUE = "test-and-set gating rule over MIR: every descent into / report about an object is dominated by a successful seen.insert of the same id and unreachable from its `already seen` edge"
EXPLANATION = ("gix_fsck::Connectivity: loading a commit (find_commit), descending into a tree (check_tree) and checking a blob (check_blob) are each dominated by "
               "`seen.insert(id)` on the same binding and unreachable from its false edge, so an object reachable through many paths is examined and reported at most "
               "once; sub-trees are queued ungated but gated when popped. Equality with `git fsck --connectivity-only` is not decided.")


def run(db, chk):
    n = 0
    for nm, sink_pat, idx in (("check_commit", r"(FindExt>?::find_commit$|::find_commit$)", 1), ("check_commit", r"Connectivity::<T, F>::check_tree$", 1), ("check_tree", r"^gix_fsck::check_blob$", 1)):
        f = db.one(r"^gix_fsck::Connectivity::<T, F>::%s$" % nm)
        fl = Flow(f)
        gates = [c for c in f.calls() if c.is_(r"HashSet::<T, S, A>::insert$") and ".seen" in recv_fields(fl, c.args[0])]
        sinks = f.calls_to(sink_pat)
        chk.floor("%s: %s" % (nm, sink_pat), len(sinks), 1)
        for s in sinks:
            n += 1
            g = gated_by_insert(f, fl, s, [s.args[idx]], gates)
            chk.ob("descent-gated-by-seen", "%s -> %s@%d" % (nm, s.name.split("::")[-1], s.line), g is not None,
                   "an object can be examined without a successful seen.insert(id): it would be visited/reported more than once", s.where(), key="gated|%s|%s" % (nm, s.name.split("::")[-1]))
    chk.floor("gated descents", n, 3)
    ct = db.one(r"^gix_fsck::Connectivity::<T, F>::check_tree$")
    cb = db.one(r"^gix_fsck::check_blob$")
    # the missing callback is invoked only from check_tree (missing tree) and check_blob
    rep = sorted({f.name for f in db.by_crate["gix_fsck"] if f.kind != "promoted" for c in f.calls() if ("ind" in c.callee or c.is_(r"ops::function::FnMut.*::call_mut$")) })
    chk.ob("report-sites", "functions invoking the missing-object callback", set(rep) <= {ct.name, cb.name} and bool(rep), str(rep), key="report-sites")
