"""C54 Connectivity check visits each object once — test-and-set gating of descents and reports (DOM)."""
from gx.flow import Flow
from props._visit_once import recv_fields, gated_by_insert

TECHNIQUE = "test-and-set gating rule over MIR: every descent into / report about an object is dominated by a successful seen.insert of the same id and unreachable from its `already seen` edge"
EXPLANATION = ("gix_fsck::Connectivity: loading a commit (find_commit), descending into a tree (check_tree) and checking a blob (check_blob) are each dominated by "
               "`seen.insert(id)` on the same binding and unreachable from its false edge, so an object reachable through many paths is examined and reported at most "
               "once; sub-trees are queued ungated but gated when popped. The dispatch on the entry mode is evaluated for all 65536 mode values (interval abstract interpretation with masked comparisons, EntryMode helpers inlined): regular files and symlinks reach check_blob, directories the tree queue, gitlinks neither. Equality with `git fsck --connectivity-only` is not decided.")


def run(db, chk):
    n = 0
    for nm, sink_pat, idx in (("check_commit", r"(FindExt>?::find_commit$|::find_commit$)", 1), ("check_commit", r"Connectivity::<T, F>::check_tree$", 1), ("check_tree", r"^gix_fsck::check_blob$", 1)):
        f = db.one(r"^gix_fsck::Connectivity::<T, F>::%s$" % nm)
        fl = Flow(f)
        gates = [c for c in f.calls() if c.is_(r"HashSet::<T, S, A>::insert$") and ".seen" in recv_fields(fl, c.args[0])]
        sinks = f.calls_to(sink_pat)
        chk.floor("%s: %s" % (nm, sink_pat), len(sinks), 1)
        for s in sinks:
            n += 1
            g = gated_by_insert(f, fl, s, [s.args[idx]], gates)
            chk.ob("descent-gated-by-seen", "%s -> %s@%d" % (nm, s.name.split("::")[-1], s.line), g is not None,
                   "an object can be examined without a successful seen.insert(id): it would be visited/reported more than once", s.where(), key="gated|%s|%s" % (nm, s.name.split("::")[-1]))
    chk.floor("gated descents", n, 3)
    ct = db.one(r"^gix_fsck::Connectivity::<T, F>::check_tree$")
    cb = db.one(r"^gix_fsck::check_blob$")
    # the missing callback is invoked only from check_tree (missing tree) and check_blob
    rep = sorted({f.name for f in db.by_crate["gix_fsck"] if f.kind != "promoted" for c in f.calls() if ("ind" in c.callee or c.is_(r"ops::function::FnMut.*::call_mut$")) })
    chk.ob("report-sites", "functions invoking the missing-object callback", set(rep) <= {ct.name, cb.name} and bool(rep), str(rep), key="report-sites")
    kind_dispatch_rule(db, chk)


def kind_dispatch_rule(db, chk):
    """every entry of a tree is followed according to its type: in the loop of check_tree the entry mode (a u16) decides where the entry goes.
    AI-int over all 65536 mode values (EntryMode helpers inlined, `x & mask == c` tests split exactly): modes whose type bits are regular file
    (0o100000) or symlink (0o120000) must reach check_blob, directories (0o040000) must be queued (or checked) as trees, and gitlinks (0o160000)
    must reach neither - their commit lives in another repository."""
    from gx import aiint
    f = db.one(r"^gix_fsck::Connectivity::<T, F>::check_tree$")
    fl = Flow(f)
    nxt = [c for c in f.calls() if c.is_(r"iterator::Iterator>?::next$") and "EntryRef" in (c.callee.get("targs", "") + c.callee.get("self", ""))]
    blob = f.calls_to(r"^gix_fsck::check_blob$")
    tree = [c for c in f.calls() if c.is_(r"VecDeque::<T, A>::push_back$|VecDeque<T, A>>::push_back$|::push$|Connectivity::<T, F>::check_tree$")]
    chk.floor("check_tree: entry loop / check_blob / tree queue", min(len(nxt), len(blob), len(tree)), 1)
    if not (nxt and blob and tree):
        return
    some = [t for _, t in fl.result_edges(nxt[0])["good"]]
    if len(some) != 1:
        chk.anchor_lost("check_tree: body of the entry loop")
        return
    stops = {nxt[0].block: "next"}
    for c in blob:
        stops[c.block] = "blob"
    for c in tree:
        stops[c.block] = "tree"

    def resolve(nm):
        r = [g for g in db.fns if g.kind != "promoted" and g.name == nm] if not isinstance(db.fns, dict) else ([db.fns[nm]] if nm in db.fns else [])
        return r[0] if len(r) == 1 and r[0].crate.startswith("gix_") else None
    is_mode = lambda p: len(p) >= 2 and (p[-1] == ".mode" or p[-2:] == [".mode", ".0"])
    try:
        pw = aiint.piecewise(f, is_mode, 0, 0xFFFF, resolve=resolve, start=some[0], stop=set(stops), observe="stop", fork_unknown=True)
    except aiint.Unsupported as e:
        chk.ob("entry-kind-dispatch", "check_tree", False, "dispatch on the entry mode not evaluable: %s" % e, "%s" % f.file, key="kind-dispatch|unsupported")
        return
    reach = {}
    for a, b, v in pw:
        for ty in (0o040000, 0o100000, 0o120000, 0o160000):
            lo, hi = max(a, ty), min(b, ty + 0o7777)
            if lo <= hi:
                reach.setdefault(ty, set()).add(stops.get(v, "?"))
    chk.set("mode_pieces", len(pw))
    want = {0o040000: {"tree"}, 0o100000: {"blob"}, 0o120000: {"blob"}, 0o160000: {"next"}}
    names = {0o040000: "directory", 0o100000: "regular file", 0o120000: "symlink", 0o160000: "gitlink"}
    for ty, w in want.items():
        got = reach.get(ty, set())
        # the blob arm is left through `next` as well when the id was seen before: that is the de-duplication, not a skipped kind
        ok = (w <= got) and got <= (w | {"next"}) if w != {"next"} else got == {"next"}
        chk.ob("entry-kind-dispatch", "check_tree mode %06o (%s)" % (ty, names[ty]), ok,
               "entries of this type go to %s, expected %s: %s" % (sorted(got), sorted(w), "missing objects of this kind are never reported" if not (w <= got) else "objects are looked up as the wrong kind"),
               "%s:%d" % (f.file, nxt[0].line), key="kind-dispatch|%06o" % ty)
