"""C55 Worktree stream protocol — writer/reader tables and header layout (TAB)."""
import re
from gx import tab
from gx.flow import Flow

TECHNIQUE = "enum<->byte table extraction from MIR (mutually inverse, total), header field provenance agreement between writer and reader"
EXPLANATION = ("For gix-worktree-stream's private pipe protocol: mode_to_byte/byte_to_mode and hash_to_byte/byte_to_hash are extracted as tables "
               "from their MIR switches and must be mutually inverse and total over the enum; the reader's header buffer length equals the "
               "writer's HEADER_LEN; both sides put path length in the first usize slot, stream length in the second, mode in byte 0 and hash kind "
               "in byte 1 (provenance of the split_at results); the chunk-length prefix of write_stream is a u16 and its buffer is capped at "
               "u16::MAX on every path to a read (must-pass through the Ok edge of clear_and_set_len(buf, BUF_LEN)); in gix_archive::write every appending call (io::copy, read_to_end, extend, write_all, push) into the shared scratch "
               "buffer is preceded by a clear() of it on every path (sibling agreement of the tar and zip writers). Entry::read marks the end of an entry only behind a non-empty-buffer test. Every Visit::push_back_tracked_path_component implementation queues a clone of the tracked path and never moves the path out. Equality of archive contents with `git archive` is not decided.")
P = "gix_worktree_stream::protocol::"


def run(db, chk):
    archive_buffer_rule(db, chk)
    entry_eof_rule(db, chk)
    visit_path_tracking_rule(db, chk)
    m2b = tab.enum_to_const(db.one("^" + P + "mode_to_byte$"))
    b2m = tab.const_to_enum(db.one("^" + P + "byte_to_mode$"), 2)
    chk.floor("tables in mode_to_byte/byte_to_mode", len(m2b) + len(b2m), 2)
    if m2b and b2m:
        w, r = m2b[0]["table"], b2m[0]["table"]
        chk.set("mode_table", {k: v for k, v in w.items()})
        chk.ob("table-total", "mode_to_byte covers all EntryKind variants", len(w) >= 5 and all(v is not None for v in w.values()), str(w), key="table-total|mode_to_byte")
        for var, byte in w.items():
            chk.ob("table-inverse", "mode %s <-> %s" % (var, byte), r.get(byte) == var, "reader maps %s to %s" % (byte, r.get(byte)),
                   "gix-worktree-stream/src/protocol.rs", key="table-inverse|mode|%s" % var)
        chk.ob("table-injective", "mode_to_byte", len(set(w.values())) == len(w), str(w), key="table-injective|mode_to_byte")
        chk.ob("table-no-extra", "byte_to_mode", set(r) == set(w.values()), "reader accepts %s, writer emits %s" % (sorted(r), sorted(w.values())), key="table-no-extra|mode")
    h2b = db.one("^" + P + "hash_to_byte$")
    b2h = tab.const_to_enum(db.one("^" + P + "byte_to_hash$"), 1)
    hv = tab.enum_to_const(h2b)
    if hv:
        hw = hv[0]["table"]
    else:
        # single-variant enum: no switch, constant return
        fl = Flow(h2b)
        hw = {"Sha1": next(iter(x for x in fl.const_roots({"p": [0]}) if isinstance(x, int)), None)}
    chk.floor("byte_to_hash table", len(b2h), 1)
    if b2h:
        for var, byte in hw.items():
            chk.ob("table-inverse", "hash %s <-> %s" % (var, byte), b2h[0]["table"].get(byte) == var, "reader maps %s to %s" % (byte, b2h[0]["table"].get(byte)), key="table-inverse|hash|%s" % var)
    # header layout
    rd = db.one("^" + P + "read_entry_info$")
    wr = db.one("^" + P + "write_entry_header_and_path$")
    hl = db.const(P + "write_entry_header_and_path::HEADER_LEN")["v"]
    buf_tys = [t for t in rd.locals if t.startswith("[u8; ")]
    chk.ob("header-length", "read_entry_info buffer", "[u8; %d]" % hl in buf_tys, "reader buffer %s vs HEADER_LEN %d" % (buf_tys, hl), "%s:%d" % (rd.file, rd.line), key="header-length")

    def slot_of(fn, fl, op):
        """which header slot an operand's bytes come from: 'A.0' first usize, 'B.0' second usize, 'B.1' trailing bytes"""
        res = set()
        for r in fl.roots(op, stop_named=False, sites=True, stop_calls=r"::split_at(_mut)?$"):
            if r[0] == "call" and r[1].endswith(("::split_at", "::split_at_mut")):
                call = [c for c in fn.calls() if c.block == r[2]][0]
                recv = fl.roots(call.args[0], stop_named=False, sites=True)
                nested = any(x[0] == "call" and x[1].endswith(("::split_at", "::split_at_mut")) for x in recv)
                res.add(("B" if nested else "A") + "".join(r[3][-1:]))
        return res

    rfl, wfl = Flow(rd), Flow(wr)
    # reader: which slot feeds path_len (-> clear_and_set_len) and stream_size (-> returned Option)
    r_path = set()
    for c in rd.calls_to(r"protocol::clear_and_set_len$"):
        r_path |= slot_of(rd, rfl, c.args[1])
    r_mode = set()
    for c in rd.calls_to(r"protocol::byte_to_mode$"):
        r_mode |= {str(p) for bi, si, pl, rv, ln, mc in rd.assigns() if pl[0] == c.args[0]["p"][0] for p in [rv]}
    w_path, w_stream = set(), set()
    for c in wr.calls_to(r"::copy_from_slice$"):
        src = wfl.roots(c.args[1], stop_named=False)
        dst = slot_of(wr, wfl, c.args[0])
        if any(r[0] == "arg" and r[1] == 1 for r in src):
            w_path |= dst
        if any(r[0] == "arg" and r[1] == 4 for r in src):
            w_stream |= dst
    r_stream = set()
    for c in rd.calls_to(r"::from_le_bytes$"):
        s = slot_of(rd, rfl, c.args[0])
        if s != r_path:
            r_stream |= s
    chk.ob("header-field-order", "path length slot", r_path == {"A.0"} and w_path == {"A.0"}, "reader %s writer %s" % (r_path, w_path), "%s:%d" % (rd.file, rd.line), key="header-field-order|path_len")
    chk.ob("header-field-order", "stream length slot", r_stream == {"B.0"} and w_stream == {"B.0"}, "reader %s writer %s" % (r_stream, w_stream), "%s:%d" % (rd.file, rd.line), key="header-field-order|stream_len")

    def index_const(fn, fl, proj):
        if proj.startswith("[_"):
            l = int(proj[2:-1])
            c = {x for x in fl.const_roots({"p": [l]}) if isinstance(x, int)}
            return next(iter(c)) if len(c) == 1 else None
        if proj.startswith("["):
            try:
                return int(proj[1:-1])
            except ValueError:
                return None
        return None

    # reader: byte index feeding byte_to_mode / byte_to_hash
    def reader_index(callee):
        out = set()
        for c in rd.calls_to(callee):
            l = c.args[0]["p"][0]
            for (bi, si, kind, payload) in rfl.defs.get(l, []):
                if kind == "a" and payload[1][0] == "use" and "p" in payload[1][1]:
                    for pr in payload[1][1]["p"][1:]:
                        if pr.startswith("["):
                            out.add(index_const(rd, rfl, pr))
        return out

    def writer_index(callee):
        out = set()
        for c in wr.calls_to(callee):
            d = c.dest
            # result stored into bytes[i]: either dest place itself or a later assign
            for pr in d[1:]:
                if pr.startswith("["):
                    out.add(index_const(wr, wfl, pr))
            for bi, si, pl, rv, ln, mc in wr.assigns():
                if rv[0] == "use" and "p" in rv[1] and rv[1]["p"][0] == d[0]:
                    for pr in pl[1:]:
                        if pr.startswith("["):
                            out.add(index_const(wr, wfl, pr))
        return out

    for nm, rc, wc, want in (("mode", r"protocol::byte_to_mode$", r"protocol::mode_to_byte$", 0), ("hash kind", r"protocol::byte_to_hash$", r"protocol::hash_to_byte$", 1)):
        ri, wi = reader_index(rc), writer_index(wc)
        chk.ob("header-field-order", "%s byte" % nm, ri == {want} and wi == {want}, "reader index %s writer index %s" % (ri, wi), "%s:%d" % (rd.file, rd.line), key="header-field-order|%s" % nm)
    # chunk length fits u16
    ws = db.one("^" + P + "write_stream$")
    bl = db.const(P + "write_stream::BUF_LEN")["v"]
    chk.ob("chunk-length-fits-u16", "write_stream BUF_LEN", bl <= 65535, "BUF_LEN=%d" % bl, "%s:%d" % (ws.file, ws.line), key="chunk-length-fits-u16")
    sized = [c for c in ws.calls_to(r"protocol::clear_and_set_len$") if any(r[0] == "constdef" and r[1].endswith("::BUF_LEN") for r in Flow(ws).roots(c.args[1], stop_named=False))]
    chk.ob("chunk-buffer-capped", "write_stream buffer", len(sized) == 1, "buffer must be sized by BUF_LEN before reading", "%s:%d" % (ws.file, ws.line), key="chunk-buffer-capped")
    # the cap holds on every path: no path from entry reaches a read into the buffer without passing a clear_and_set_len(buf, BUF_LEN) whose
    # success edge it follows (the `n as u16` prefix is lossless only because len(buf) <= u16::MAX)
    reads = ws.calls_to(r"io::Read::read\??$|io::Read>::read$|Read::read$")
    chk.floor("write_stream: read into the chunk buffer", len(reads), 1)
    wfl = Flow(ws)
    good = set()
    for c in sized:
        good |= wfl.result_edges(c)["good"]
    for rd_ in reads:
        chk.ob("chunk-buffer-capped-on-every-path", "write_stream read@%d" % rd_.line, bool(good) and wfl.cut_off([rd_.block], good),
               "a read into the shared buffer is reachable without the buffer having been resized to BUF_LEN: a larger buffer lets one read exceed 65535 bytes and `n as u16` truncates the prefix",
               rd_.where(), key="chunk-buffer-capped-every-path")


def archive_buffer_rule(db, chk):
    """gix_archive::write: the per-entry writers share one scratch Vec<u8> parameter across entries; every io::copy that appends an entry's bytes to it
    must be preceded, on every path from the function's entry, by a clear() of that same buffer (sibling agreement: tar and zip writers)."""
    fns = [f for f in db.by_crate["gix_archive"] if f.kind != "promoted" and re.search(r"write::append_\w+_entry$", f.name)]
    chk.floor("gix_archive per-entry writers", len(fns), 2)
    n = 0
    for f in fns:
        fl = Flow(f)
        bufs = [i for i in range(1, f.argc + 1) if "Vec<u8>" in f.locals[i] and f.locals[i].startswith("&mut")]
        # everything that APPENDS to a Vec<u8>: io::copy into it, Read::read_to_end(&mut buf), extend/extend_from_slice/push, Write::write_all on it
        APPEND = ((r"io::copy::copy$|std::io::copy$", 1), (r"Read>?::read_to_end$|::read_to_end$|Read>?::read_to_string$", 1),
                  (r"Vec::<T, A>::extend_from_slice$|Vec<T, A>>::extend_from_slice$|Extend<.*>>::extend$|Vec::<T, A>::push$|Write>?::write_all$|Write>?::write$", 0))
        for c in f.calls():
            slot = next((i for pat, i in APPEND if c.is_(pat)), None)
            if slot is None or len(c.args) <= slot:
                continue
            dst = {r[1] for r in fl.roots(c.args[slot], stop_named=False) if r[0] == "arg"}
            hit = [b for b in bufs if b in dst]
            if not hit:
                continue
            n += 1
            clears = [x for x in f.calls_to(r"Vec::<T, A>::clear$|Vec<T, A>>::clear$|::clear$") if {r[1] for r in fl.roots(x.args[0], stop_named=False) if r[0] == "arg"} & set(hit)]
            ok = bool(clears) and c.block not in f.reach_from(0, avoid=[x.block for x in clears])
            chk.ob("scratch-buffer-cleared-before-reuse", "%s %s@%d" % (f.name.split("::")[-1], c.name.split("::")[-1], c.line), ok,
                   "an entry's bytes are appended to the shared scratch buffer without clearing it first: the second such entry of an archive carries the first one's bytes as well",
                   c.where(), key="scratch-clear|%s" % f.name.split("::")[-1])
    chk.floor("copies into the shared scratch buffer", n, 2)


def entry_eof_rule(db, chk):
    """<Entry as io::Read>::read marks the entry as finished (`remaining = Some(0)`) when a read returned 0 bytes.  A read into an EMPTY buffer
    returns 0 as well (io::Read allows it and it says nothing about the end): the end mark may be set only on paths where the caller's buffer is
    known to be non-empty, otherwise the rest of the entry is dropped and the next header is parsed from the middle of its content."""
    from gx.flow import comparisons, bool_switch_edges
    f = db.one(r"^gix_worktree_stream::entry::<impl std::io::Read for gix_worktree_stream::Entry<'_>>::read$")
    fl = Flow(f)
    some0 = {pl[0] for bi, si, pl, rv, ln, mc in f.assigns() if len(pl) == 1 and rv[0] == "agg" and rv[3] == "Some" and len(rv[4]) == 1
             and "p" not in rv[4][0] and rv[4][0].get("v") == 0}
    marks = [(bi, ln) for bi, si, pl, rv, ln, mc in f.assigns() if pl and pl[-1] == ".remaining" and
             ((rv[0] == "use" and "p" in rv[1] and rv[1]["p"][0] in some0) or (rv[0] == "agg" and rv[3] == "Some" and len(rv[4]) == 1 and rv[4][0].get("v") == 0))]
    chk.floor("Entry::read: end-of-entry mark `remaining = Some(0)`", len(marks), 1)
    good = set()
    for cm in comparisons(f):
        for side, other in (("a", "b"), ("b", "a")):
            if "p" not in cm[side] or "p" in cm[other] or cm[other].get("v") != 0:
                continue
            if not any(r[0] == "arg" and r[1] == 2 for r in fl.roots(cm[side], stop_named=False)):
                continue
            e = bool_switch_edges(f, cm["block"], cm["res"])
            if not e:
                continue
            te, fe = e
            op = cm["op"] if side == "a" else {"Lt": "Gt", "Le": "Ge", "Gt": "Lt", "Ge": "Le"}.get(cm["op"], cm["op"])
            if op in ("Ne", "Gt"):
                good |= te
            elif op in ("Eq", "Le"):
                good |= fe
    for c in f.calls():
        if c.is_(r"::is_empty$") and c.args and any(r[0] == "arg" and r[1] == 2 for r in fl.roots(c.args[0], stop_named=False)):
            good |= fl.result_edges(c)["bad"]
    for bi, ln in marks:
        chk.ob("end-mark-only-after-nonempty-read", "Entry::read remaining=Some(0)@%d" % ln, bool(good) and fl.cut_off([bi], good),
               "the entry is marked as finished after a read that may have been given an empty buffer: `entry.read(&mut [])` drops the rest of the entry and derails next_entry()",
               "%s:%d" % (f.file, ln), key="eof-mark|Entry::read")


def visit_path_tracking_rule(db, chk):
    """the stream's paths come from the breadth-first traversal delegate, which tracks the current path the way every Visit implementation in
    the workspace does: push_back_tracked_path_component() pushes the component onto `self.path` and queues a COPY of it; the traversal then
    pops the component again and expects the parent path to be back.  Sibling agreement over all non-trivial implementations of
    Visit::push_back_tracked_path_component: the queued value is a clone of the path, and the path itself is not moved out, taken or cleared."""
    fns = db.fns.values() if isinstance(db.fns, dict) else db.fns
    impls = [f for f in fns if f.kind != "promoted" and f.name.endswith("::push_back_tracked_path_component") and any(c.is_(r"VecDeque::<T, A>::push_back$|::push_back$") for c in f.calls())]
    chk.floor("Visit::push_back_tracked_path_component implementations that queue a path", len(impls), 4)
    mine = [f for f in impls if f.crate == "gix_worktree_stream"]
    chk.floor("the worktree-stream traversal delegate among them", len(mine), 1)
    for f in impls:
        fl = Flow(f)
        pb = [c for c in f.calls() if c.is_(r"::push_back$") and len(c.args) > 1]
        ok = bool(pb)
        why = []
        for c in pb:
            from_clone = any(r[0] == "call" and r[1].endswith("::clone") for r in fl.roots(c.args[1], stop_named=False))
            if not from_clone:
                ok = False
                why.append("queues a value that is not a clone of the path")
        for c in f.calls():
            if c.is_(r"mem::take$|mem::replace$|mem::swap$") and any(r[0] == "arg" and r[1] == 1 and ".path" in r[2] for a in c.args for r in (fl.roots(a, stop_named=False) if "p" in a else [])):
                ok = False
                why.append("moves the path out (%s)" % c.name.split("::")[-1])
        label = "%s::%s" % (f.crate, re.sub(r".*for ([\w:]+).*", r"\1", f.name).split("::")[-1][:30])
        chk.ob("queued-path-is-a-copy", label, ok,
               "%s: after the component is popped the parent path is gone and every later sibling of that tree is emitted without its directory" % "; ".join(sorted(set(why))),
               "%s:%d" % (f.file, f.line), key="visit-path|%s" % f.crate)
