"""C56 Streaming compression and hashing — hash exactly what the inner writer accepted (FLOW), deflate loop progress (LP)."""
import re
from gx import loops
from gx.flow import Flow, comparisons, bool_switch_edges

TECHNIQUE = "slice-bounded-by-result provenance rule on the hashing writer; loop-progress rule on the deflate loop (every continuation lies on the true edge of an `advanced` comparison); flush-mode constants"
EXPLANATION = ("gix_features::hash::Write::write must feed the hasher exactly `buf[..written]` where `written` is the value the inner writer returned, and return that same "
               "value; deflate::Write::write_inner may only loop again on the true edge of `total_out() > last_total_out` or `total_in() > last_total_in` (so a call that "
               "neither consumed input nor produced output returns), writes exactly the produced bytes to the inner writer, flush() drives the loop with FlushCompress::Finish "
               "and write() with FlushCompress::None; the generic loop-progress analysis also holds for every loop of the zlib module. In gix_features::hash a hasher update that follows io::Read::read takes a slice cut by the returned count (read_exact: the filled slice). Every Ok(n) of write_inner is total_in() minus a value read before its loop (or a loop accumulator), so write() reports all rounds. inflate(deflate(x)) = x is zlib's contract and not decided.")


def run(db, chk):
    hash_what_was_read(db, chk)
    w = db.one(r"^<gix_features::hash::write::Write<T> as std::io::Write>::write$|^<gix_features::hash::Write<T> as std::io::Write>::write$")
    fl = Flow(w)
    inner = [c for c in w.calls() if c.is_(r"^std::io::Write::write$") and any(r[0] == "arg" and ".inner" in r[2] for r in fl.roots(c.args[0], stop_named=False))]
    upd = [c for c in w.calls() if c.is_(r"::update$")]
    chk.floor("inner.write call", len(inner), 1)
    chk.floor("hasher update call", len(upd), 1)
    for u in upd:
        r = fl.roots(u.args[1], stop_named=False, sites=True)
        idx = [c for c in w.calls() if c.is_(r"ops::index::Index(<[^>]*>)?>?::index$") and any(x[0] == "call" and x[2] == c.block for x in r)]
        ok = False
        for i in idx:
            rng = fl.roots(i.args[1], stop_named=False)
            base = fl.roots(i.args[0], stop_named=False)
            from_written = any(x[0] == "call" and x[1] == "std::io::Write::write" for x in rng)
            is_to = any(rv[0] == "agg" and rv[2].endswith("ops::range::RangeTo") and pl == [i.args[1]["p"][0]] for bi, si, pl, rv, ln, mc in w.assigns())
            from_buf = any(x[0] == "arg" and x[1] == 2 for x in base)
            ok = ok or (from_written and is_to and from_buf)
        chk.ob("hash-what-was-written", "hash::Write::write", ok, "the hasher must receive buf[..written] with written = inner.write(buf)", u.where(), key="hash-what-was-written")
        chk.ob("hash-what-was-written", "update on self.hash", any(x[0] == "arg" and ".hash" in x[2] for x in fl.roots(u.args[0], stop_named=False)), "", u.where(), key="hash-receiver")
        chk.ob("hash-after-write", "update after inner.write succeeded", all(w.dominates(i.block, u.block) for i in inner) and fl.cut_off([u.block], set().union(*[fl.result_edges(i)["good"] for i in inner])), "", u.where(), key="hash-after-write")
    rets = [rv for bi, si, pl, rv, ln, mc in w.assigns() if pl == [0] and rv[0] == "agg" and rv[3] == "Ok"]
    direct = [c for c in inner if c.dest == [0]]   # `self.inner.write(buf)` returned as it is
    chk.ob("returns-written", "hash::Write::write returns the inner count", bool(rets or direct) and all(any(x[0] == "call" and x[1] == "std::io::Write::write" for x in fl.roots(rv[4][0], stop_named=False)) for rv in rets), "", "%s:%d" % (w.file, w.line), key="returns-written")
    # deflate loop
    wi = db.one(r"^gix_features::zlib::stream::deflate::impls::<impl gix_features::zlib::stream::deflate::Write<W>>::write_inner$")
    wfl = Flow(wi)
    comp = wi.calls_to(r"Compress::compress$")
    chk.floor("compress call", len(comp), 1)
    adv = set()
    nadv = 0
    for c in comparisons(wi):
        if c["op"] != "Gt":
            continue
        if wfl.derives_from_call(c["a"], r"Compress::total_(in|out)$") and wfl.derives_from_call(c["b"], r"Compress::total_(in|out)$"):
            e = bool_switch_edges(wi, c["block"], c["res"])
            if e:
                adv |= e[0]
                nadv += 1
    chk.floor("`advanced` comparisons (total_out/total_in vs last)", nadv, 2)
    ls = [l for l in wi.loops() if any(c.block in l["body"] for c in comp)]
    chk.floor("deflate loop", len(ls), 1)
    for l in ls:
        for c in comp:
            r = wi.reach_from(c.target, avoid_edges=adv) if c.target is not None else set()
            chk.ob("deflate-loop-continues-only-on-progress", "write_inner", l["header"] not in r, "the loop can iterate again although neither input nor output advanced", c.where(), key="deflate-progress")
    count_from_entry_rule(chk, wi, wfl, ls)
    wa = [c for c in wi.calls_to(r"io::Write::write_all$")]
    ok = bool(wa) and all(any(x[0] == "call" and x[1].endswith("total_out") for x in wfl.roots(c.args[1], stop_named=False)) for c in wa)
    chk.ob("writes-produced-bytes", "write_inner writes buf[..written]", ok, "", "%s:%d" % (wi.file, wi.line), key="writes-produced-bytes")
    for nm, want in (("write", "None"), ("flush", "Finish")):
        f = db.one(r"^gix_features::zlib::stream::deflate::impls::<impl std::io::Write for gix_features::zlib::stream::deflate::Write<W>>::%s$" % nm)
        modes = {rv[3] for bi, si, pl, rv, ln, mc in f.assigns() if rv[0] == "agg" and rv[2].endswith("FlushCompress")} | {a.get("variant") for c in f.calls() for a in c.args if a.get("variant")}
        chk.ob("flush-mode", "deflate::Write::%s" % nm, modes == {want}, "uses FlushCompress::%s, expected %s" % (sorted(m for m in modes if m), want), "%s:%d" % (f.file, f.line), key="flush-mode|%s" % nm)
    # generic LP over the zlib module
    n = 0
    for f in db.by_crate["gix_features"]:
        if "::zlib::" not in f.name or f.kind == "promoted":
            continue
        for l, r in loops.check_fn(f):
            n += 1
            chk.ob("loop-progress", "%s loop@%s" % (f.name.split("gix_features::")[-1], r.get("line")), r["ok"], r.get("reason", r["kind"]), "%s:%s" % (f.file, r.get("line")), key="loop-progress|%s" % f.name)
    chk.floor("loops in gix_features::zlib", n, 2)


def hash_what_was_read(db, chk):
    """streaming hash: in gix_features::hash every function that fills a buffer with io::Read::read (which may return short counts) must feed
    the hasher a slice bounded by that count; read_exact fills the whole slice and may be followed by update(slice).  Zero-expected rule on
    today's tree (read_exact is used) with the matching control: the update after read_exact takes the same slice that was filled."""
    from gx.flow import Flow
    fns = [f for f in db.by_crate["gix_features"] if "::hash::" in f.name and f.kind != "promoted"]
    chk.floor("gix_features::hash functions", len(fns), 5)
    n_exact = n_short = 0
    for f in fns:
        fl = Flow(f)
        upds = [c for c in f.calls() if c.is_(r"Hasher>?::update$|::update$")]
        if not upds:
            continue
        exact = f.calls_to(r"io::Read::read_exact\\??(dyn)?$|Read::read_exact")
        short = [c for c in f.calls() if c.is_(r"io::Read::read\\??(dyn)?$|Read::read\\??(dyn)?$") and "read_exact" not in c.name and "read_to" not in c.name]
        for r_ in short:
            for u in upds:
                if u.block not in f.reach_from(r_.block):
                    continue
                n_short += 1
                # the update's slice must be cut by the count: an Index(RangeTo{end}) with end derived from this read's result
                roots = fl.roots(u.args[1], stop_named=False, sites=True)
                idx = [x for x in roots if x[0] == "call" and x[1].endswith("::index")]
                bounded = False
                for c in f.calls():
                    if c.is_(r"::index(_mut)?$") and len(c.args) == 2 and any(x[0] == "call" and x[2] == c.block for x in idx):
                        if any(y[0] == "call" and y[2] == r_.block for y in fl.roots(c.args[1], stop_named=False, sites=True)):
                            bounded = True
                chk.ob("hash-what-was-read", "%s update@%d after read@%d" % (f.name.split("gix_features::")[-1], u.line, r_.line), bounded,
                       "read() may return fewer bytes than the buffer holds, but the hasher is fed the whole buffer (stale bytes are hashed): the id depends on how the reader portions the data",
                       u.where(), key="hash-what-was-read|%s" % f.name.split("::")[-1])
        for r_ in exact:
            for u in upds:
                if u.block in f.reach_from(r_.block):
                    n_exact += 1
                    same = fl.root_vars(u.args[1]) & fl.root_vars(r_.args[1])
                    chk.ob("hash-what-was-read", "%s update@%d after read_exact@%d" % (f.name.split("gix_features::")[-1], u.line, r_.line), bool(same),
                           "the slice hashed is not the slice that read_exact filled", u.where(), key="hash-what-was-read-exact|%s" % f.name.split("::")[-1])
    chk.floor("hasher updates fed from a reader in gix_features::hash", n_exact + n_short, 1)


def count_from_entry_rule(chk, wi, wfl, ls):
    """io::Write::write must report ALL bytes it consumed: write_all re-submits what the count leaves out, and those bytes would be compressed
    twice (the object id, hashed on the way in, would no longer describe the stored stream).  write_inner consumes input over several rounds of
    its loop, so every Ok(n) it returns must measure from the function's entry: n = total_in() - s with s read before the loop (or n is a
    variable accumulated inside the loop) - never a difference against a value read inside the loop (one round only)."""
    body = set().union(*[l["body"] for l in ls]) if ls else set()
    defs = {}
    for bi, si, pl, rv, ln, mc in wi.assigns():
        if len(pl) == 1:
            defs.setdefault(pl[0], []).append((bi, rv, ln))
    by_dest = {}
    for c in wi.calls():
        if c.dest and len(c.dest) == 1:
            by_dest.setdefault(c.dest[0], []).append(c)

    def strip(op, depth=0):
        """follow copies and integer casts back to the defining rvalue/call of a single-assignment local"""
        while depth < 12 and "p" in op:
            l = op["p"][0]
            proj = [x for x in op["p"][1:] if x != "*"]
            ds, cs = defs.get(l, []), by_dest.get(l, [])
            if len(ds) == 1 and not cs and ds[0][1][0] in ("use", "cast") and (not proj or proj == [".0"]):
                op = ds[0][1][1] if ds[0][1][0] == "use" else ds[0][1][2]
            elif len(ds) == 1 and not cs and ds[0][1][0] == "bin" and proj == [".0"]:
                return ("bin", ds[0][0], ds[0][1])
            elif len(ds) == 1 and not cs and ds[0][1][0] == "bin" and not proj:
                return ("bin", ds[0][0], ds[0][1])
            elif len(cs) == 1 and not ds:
                return ("call", cs[0].block, cs[0])
            else:
                return ("multi", l, ds, cs)
            depth += 1
        return ("const", op)
    n = 0
    for bi, si, pl, rv, ln, mc in wi.assigns():
        if not (rv[0] == "agg" and rv[1] == "adt" and rv[3] == "Ok" and rv[2].endswith("Result") and len(rv[4]) == 1):
            continue
        if pl != [0]:
            continue
        n += 1
        d = strip(rv[4][0])
        ok, why = False, "the returned count is not `total_in() - <value read before the loop>`"
        if d[0] == "bin" and d[2][1].startswith("Sub"):
            rhs = strip(d[2][3])
            lhs = strip(d[2][2])
            if rhs[0] == "call" and rhs[2].is_(r"Compress::total_in$") and lhs[0] == "call" and lhs[2].is_(r"Compress::total_in$"):
                ok = rhs[1] not in body
                why = "the count is measured against total_in() read INSIDE the loop (line %d): only the last round is reported, earlier rounds are re-submitted by write_all" % rhs[2].line
        elif d[0] == "multi":
            # an accumulator: some definition inside the loop is `acc + x` (checked add: `t = AddWithOverflow(acc, x); acc = t.0`)
            def is_add(x):
                rv_ = x[1]
                if rv_[0] == "bin" and rv_[1].startswith("Add"):
                    return True
                if rv_[0] == "use" and "p" in rv_[1] and rv_[1]["p"][1:] == [".0"]:
                    return any(y[1][0] == "bin" and y[1][1].startswith("Add") for y in defs.get(rv_[1]["p"][0], []))
                return False
            inits_zero = all(is_add(x) or (x[1][0] == "use" and "p" not in x[1][1] and x[1][1].get("v") == 0) for x in d[2])
            ok = inits_zero and any(x[0] in body and is_add(x) for x in d[2])
            why = "the returned count is a variable that is neither `total_in() - <start>` nor a zero-initialised sum accumulated inside the loop"
        chk.ob("count-measured-from-entry", "write_inner Ok@%d" % ln, ok, why, "%s:%d" % (wi.file, ln), key="count-from-entry|write_inner")
    chk.floor("write_inner: Ok(count) returns", n, 2)
