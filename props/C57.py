"""C57 ANSI-C unquoting — escape table vs git's quote_c_style (TAB)."""
from gx import tab
from gx.flow import Flow

TECHNIQUE = "switch-table extraction from MIR compared with the format's escape table; radix/width constants of the octal branch"
EXPLANATION = ("Extracts from gix_quote::ansi_c::undo the table `escape character -> byte pushed` and requires it to be exactly git's "
               "quote_c_style set (a b t n v f r \" \\ with their C values), that the octal branch is entered for exactly '0'..'3', hands a text of constant length 3 "
               "(LIN) to the radix-8 parser, and that every other escape byte reaches the UnsupportedEscapeByte error. "
               "undo() contains no reverse byte search (the closing quote is the first unescaped one; positive control elsewhere). Constant increments of `consumed` happen only behind a successful probe of the input, so the count never exceeds the input; its exact value for all inputs is a value property and is not decided.")
SPEC = {ord("n"): 10, ord("r"): 13, ord("t"): 9, ord("a"): 7, ord("b"): 8, ord("v"): 11, ord("f"): 12, ord('"'): 34, ord("\\"): 92}


def run(db, chk):
    f = db.one(r"^gix_quote::ansi_c::undo$")
    forward_scan_rule(db, chk, f)
    fl = Flow(f)
    best = None
    for sw in tab.switches(f, 8):
        if set(SPEC) <= set(sw["arms"]):
            best = sw
    if best is None:
        chk.anchor_lost("escape switch in ansi_c::undo")
        return
    got = {}
    octal = set()
    for v, tgt in best["arms"].items():
        c = tab.const_call_arg_after(f, tgt, r"::push$", 1, limit=3)
        if c:
            got[v] = c
        else:
            octal.add(v)
    for k, want in SPEC.items():
        chk.ob("escape-value", "\\%s" % chr(k), got.get(k) == {want}, "pushes %s, git's table says %d" % (got.get(k), want), "%s:%d" % (f.file, f.line), key="escape-value|%d" % k)
    extra = set(got) - set(SPEC)
    chk.ob("no-extra-escapes", "undo escape set", not extra, "extra escapes %s" % sorted(extra), "%s:%d" % (f.file, f.line), key="no-extra-escapes")
    chk.ob("octal-lead-digits", "undo octal branch", octal == {48, 49, 50, 51}, "entered for %s, expected '0'..'3'" % sorted(octal), "%s:%d" % (f.file, f.line), key="octal-lead-digits")
    radix = set()
    for c in f.calls_to(r"btoi::to_unsigned_with_radix$"):
        radix |= {x for x in fl.const_roots(c.args[1]) if isinstance(x, int)}
    chk.ob("octal-radix", "undo octal branch", radix == {8}, "radix %s" % radix, "%s:%d" % (f.file, f.line), key="octal-radix")
    octal_width_rule(db, chk, f, fl)
    consumed_rule(db, chk, f, fl)
    # the otherwise arm must build UnsupportedEscapeByte
    ow = f.reach_from(best["otherwise"])
    err = any(rv[0] == "agg" and rv[3] == "UnsupportedEscapeByte" for bi, si, pl, rv, ln, mc in f.assigns() if bi in tab.straight_line(f, best["otherwise"], 20))
    chk.ob("unknown-escape-is-error", "undo otherwise arm", err, "unknown escape bytes must produce UnsupportedEscapeByte", "%s:%d" % (f.file, f.line), key="unknown-escape-is-error")
    chk.set("switch_arms", len(best["arms"]))
    chk.sample({"table": {chr(k): sorted(v) for k, v in got.items()}})


REVERSE = r"::rfind_byte$|::rfind$|::rfind_byteset$|::rposition$|::rsplit\w*$|::last_byte$|memrchr"


def forward_scan_rule(db, chk, f):
    """the closing quote of a C-style quoted string is the FIRST unescaped quote: undo() may only search forwards.  Zero-expected rule with a positive
    control (the reverse-search pattern must match somewhere else in the workspace)."""
    fam = [f] + db.closures_of(f)
    hits = [(g, c) for g in fam for c in g.calls() if c.is_(REVERSE)]
    ctl = sum(1 for crate in ("gix_url", "gix_path", "gix_ref", "gix_glob", "gix_config", "gix_object", "gix_refspec") for g in db.by_crate.get(crate, []) for c in g.calls() if c.is_(REVERSE))
    chk.floor("control: reverse byte searches recognised elsewhere in the workspace", ctl, 1)
    for g, c in hits:
        chk.ob("closing-quote-searched-forwards", "undo %s@%d" % (c.name.split("::")[-1], c.line), False,
               "a reverse search in undo() finds the LAST quote: for two quoted strings in a row everything up to the last quote is taken as one string and `consumed` points past it",
               c.where(), key="reverse-search|undo|%s" % c.name.split("::")[-1])
    if not hits:
        chk.ob("closing-quote-searched-forwards", "undo (no reverse search)", True)


def octal_width_rule(db, chk, f, fl):
    """git writes every non-printable byte as a backslash and EXACTLY three octal digits; a digit after them is an ordinary path byte.  So the
    text handed to the radix-8 parser has the fixed length 3 (LIN: a [u8; 3], or a slice whose bounds differ by the constant 3), never a length
    that depends on what follows the escape."""
    from gx.lin import Evaluator
    ev = Evaluator(f)
    n = 0
    for c in f.calls_to(r"btoi::to_unsigned_with_radix$"):
        n += 1
        ln_ = ev.length(c.args[0])
        chk.ob("octal-escape-is-three-digits", "undo to_unsigned_with_radix@%d" % c.line, ln_.is_const() and ln_.c == 3,
               "the octal escape text has length %s, not the constant 3: `\\3032` (byte 0o303 followed by the character 2) is read as one number" % ln_, c.where(), key="octal-width|undo")
    chk.floor("undo: radix-8 parse of the octal escape", n, 1)


def consumed_rule(db, chk, f=None, fl=None):
    """undo() reports how many input bytes the quoted form occupies, and callers slice the input with it (`&line[consumed..]` in gix-attributes):
    the count must never exceed the input.  Every increment of `consumed` by a constant amount (the quote, the backslash, the escape byte, the two
    further octal digits) therefore happens only after the bytes it counts were SEEN: the increment is unreachable from the entry once the
    success edges of the probes on the input (find_byteset -> Some, consume_one_past -> Ok, get(..) -> Some, first -> Some) are removed."""
    from gx.flow import Flow as _Flow
    if f is None:
        f = db.one(r"^gix_quote::ansi_c::undo$")
        fl = _Flow(f)
    cons = f.locals_named("consumed")
    chk.floor("undo: the `consumed` counter", len(cons), 1)
    good = set()
    probes = [c for c in f.calls() if c.is_(r"::find_byteset$|::find_byte$|undo::consume_one_past$|::get$|::first$|::split_first$|::strip_prefix$")]
    for c in probes:
        good |= fl.result_edges(c)["good"]
    n = 0
    for bi, si, pl, rv, ln, mc in f.assigns():
        # `t = AddWithOverflow(consumed, k)` / `AddWithOverflow(consumed, x)` where x itself contains a +1
        if rv[0] != "bin" or not rv[1].startswith("Add") or "p" not in rv[2] or rv[2]["p"] not in [[c] for c in cons]:
            continue
        amount = rv[3]
        const_part = ("p" not in amount and isinstance(amount.get("v"), int) and amount["v"] > 0)
        seen, work = set(), ([amount["p"][0]] if "p" in amount else [])
        while work and not const_part:
            l = work.pop()
            if l in seen:
                continue
            seen.add(l)
            for b2, s2, p2, r2, l2, m2 in f.assigns():
                if p2 and p2[0] == l:
                    if r2[0] == "bin" and r2[1].startswith("Add") and any("p" not in o and isinstance(o.get("v"), int) and o["v"] > 0 for o in (r2[2], r2[3])):
                        const_part = True
                    for o in ([r2[1]] if r2[0] == "use" else [r2[2]] if r2[0] == "cast" else []):
                        if isinstance(o, dict) and "p" in o and isinstance(o["p"][0], int):
                            work.append(o["p"][0])
        if not const_part:
            continue
        n += 1
        # the initial `consumed = 1` for the opening quote is an assignment, not an increment; increments in the entry block count the first byte test
        ok = bool(good) and fl.cut_off([bi], good)
        chk.ob("consumed-counts-only-seen-bytes", "undo consumed += ..@%d" % ln, ok,
               "`consumed` grows by a constant on a path where no probe of the input succeeded (e.g. after `find_byteset(..).unwrap_or(len)`): for an unterminated quote it ends one past the input and callers that slice with it panic",
               "%s:%d" % (f.file, ln), key="consumed|undo")
    chk.floor("undo: constant increments of `consumed`", n, 3)
