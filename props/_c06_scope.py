"""scope of the untrusted-input analyses (C06/C15): parser crates and parser modules of larger crates"""
import re
WHOLE = ["gix_object", "gix_bitmap", "gix_packetline", "gix_packetline_blocking", "gix_url", "gix_refspec", "gix_revision", "gix_pathspec",
         "gix_attributes", "gix_ignore", "gix_mailmap", "gix_date", "gix_quote", "gix_credentials", "gix_commitgraph", "gix_validate", "gix_glob",
         "gix_config_value", "gix_actor", "gix_hash", "gix_utils", "gix_chunk", "gix_config", "gix_protocol"]
PARTIAL = {
    "gix_ref": r"(::packed::(decode|iter|find|buffer)|::loose::reference::decode|::log::|::loose::reflog::|gix_ref::name::|gix_ref::fullname|gix_ref::parse)",
    "gix_index": r"(::decode::|::extension::|gix_index::util::|::file::init::)",
    "gix_pack": r"(::multi_index::(init|chunk|access))",
    "gix_features": r"(::decode::)",
}


def functions(db):
    out = []
    for c in WHOLE:
        out += [f for f in db.by_crate[c] if f.kind != "promoted"]
    for c, rx in PARTIAL.items():
        r = re.compile(rx)
        out += [f for f in db.by_crate[c] if f.kind != "promoted" and r.search(f.name)]
    # derive/fmt/serde boilerplate is not parsing code
    out = [f for f in out if not re.search(r"(core::fmt::|serde::|core::clone::Clone|core::cmp::|core::hash::Hash|core::default::Default|core::error::Error)", f.trait_item or "") and not f.d.get("expn")]
    return out
