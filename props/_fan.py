"""shared rule for the three fan-out bisections (pack index lookup, pack index prefix lookup, commit-graph lookup):
the range searched for first byte b is [fan[b-1], fan[b]) and starts at 0 for b == 0."""
from gx.flow import comparisons


def fan_bounds(chk, f, label):
    lp = f.loops()
    bodies = set()
    for l in lp:
        bodies |= set(l["body"])
    cands = [cm for cm in comparisons(f) if cm["op"] == "Lt" and len(cm["a"].get("p", [])) == 1 and len(cm["b"].get("p", [])) == 1 and cm["block"] in bodies]
    chk.floor("%s: bisection loop comparison (lower < upper)" % label, len(cands), 1)
    if not cands:
        return
    cm = cands[0]

    def src(l):
        # follow plain copies backwards to the named local
        for _ in range(4):
            ds = [(bi, rv) for bi, si, pl, rv, ln, mc in f.assigns() if pl == [l]]
            if len(ds) == 1 and ds[0][1][0] == "use" and "p" in ds[0][1][1] and len(ds[0][1][1]["p"]) == 1:
                l = ds[0][1][1]["p"][0]
            else:
                break
        return l
    lower = src(cm["a"]["p"][0])
    init = [(bi, rv, ln) for bi, si, pl, rv, ln, mc in f.assigns() if pl == [lower] and bi not in bodies]
    calls = [c for c in f.calls() if c.dest and c.dest[0] == lower and len(c.dest) == 1 and c.block not in bodies]
    zero = any(rv[0] == "use" and "p" not in rv[1] and rv[1].get("v") == 0 for bi, rv, ln in init) or \
        any("p" not in a and a.get("v") == 0 for c in calls for a in c.args)
    fanread = any(rv[0] == "use" and "p" in rv[1] and any(isinstance(x, str) and x.startswith("[") for x in rv[1]["p"][1:]) for bi, rv, ln in init) or bool(calls)
    chk.ob("fan-lower-bound", label, zero and fanread,
           "the lower bound of the bisection is initialised from %d site(s) and none of them is the constant 0: ids whose first byte is 0x00 start at position 0, not at fan[0]" % (len(init) + len(calls)),
           "%s:%d" % (f.file, cm["line"]), key="fan-lower-bound|%s" % f.name)


def fan_index_rule(db, chk, crates, floor):
    """every read of a fan-out table (`[u32; 256]`) at `first_byte - 1` - the lower end of a bucket - is reachable only when first_byte != 0; for
    first byte 0 the bucket starts at position 0, not at fan[0].  `saturating_sub(1)` or a wrapping/unchecked subtraction silently reads fan[0]
    instead.  Checked over every function of the given crates that indexes such a table (not only the known bisections)."""
    from gx.flow import Flow, comparisons, bool_switch_edges
    n = 0
    for crate in crates:
        for f in db.by_crate[crate]:
            if f.kind == "promoted":
                continue
            reads = []
            for bi, si, pl, rv, ln, mc in f.assigns():
                ops = []
                if rv[0] in ("use", "cast"):
                    ops = [rv[1] if rv[0] == "use" else rv[2]]
                elif rv[0] == "ref":
                    ops = [{"p": rv[2]}]
                for op in ops:
                    if not isinstance(op, dict) or "p" not in op:
                        continue
                    p = op["p"]
                    idx = [x for x in p[1:] if isinstance(x, str) and x.startswith("[")]
                    if not idx or not isinstance(p[0], int):
                        continue
                    base_ty = f.locals[p[0]]
                    fields = [x for x in p[1:] if isinstance(x, str) and x.startswith(".")]
                    if "[u32; 256]" in base_ty or ".fan" in fields:
                        try:
                            il = int(idx[0].strip("[]_"))
                        except ValueError:
                            continue
                        reads.append((bi, il, ln))
            if not reads:
                continue
            fl = Flow(f)
            for bi, il, ln in reads:
                n += 1
                r = fl.roots(il, stop_named=False)
                minus = [x for x in r if x[0] == "call" and x[1].endswith(("::saturating_sub", "::wrapping_sub", "::checked_sub", "::unchecked_sub"))]
                subs = []
                seen, work = set(), [il]
                while work:
                    l = work.pop()
                    if l in seen:
                        continue
                    seen.add(l)
                    for b2, s2, pl2, rv2, ln2, mc2 in f.assigns():
                        if pl2 and pl2[0] == l:
                            if rv2[0] == "bin" and rv2[1].startswith("Sub") and "p" not in rv2[3] and rv2[3].get("v") == 1 and "p" in rv2[2]:
                                subs.append(rv2[2])
                            for o in ([rv2[1]] if rv2[0] == "use" else [rv2[2]] if rv2[0] == "cast" else [rv2[2], rv2[3]] if rv2[0] == "bin" else []):
                                if isinstance(o, dict) and "p" in o and isinstance(o["p"][0], int):
                                    work.append(o["p"][0])
                    for c in f.calls():
                        if c.dest and c.dest[0] == l and c.is_(r"::(saturating|wrapping|checked|unchecked)_sub$|convert::(From|Into)|::from$|::into$"):
                            for a in c.args:
                                if "p" in a and isinstance(a["p"][0], int):
                                    work.append(a["p"][0])
                if not minus and not subs:
                    continue
                # the read must be behind a `!= 0` / `> 0` (or the false edge of `== 0`) test
                good = set()
                for cm in comparisons(f):
                    for side, other in (("a", "b"), ("b", "a")):
                        if "p" in cm[side] and "p" not in cm[other] and cm[other].get("v") == 0:
                            e = bool_switch_edges(f, cm["block"], cm["res"])
                            if not e:
                                continue
                            op = cm["op"] if side == "a" else {"Lt": "Gt", "Gt": "Lt", "Le": "Ge", "Ge": "Le"}.get(cm["op"], cm["op"])
                            if op in ("Ne", "Gt"):
                                good |= e[0]
                            elif op in ("Eq", "Le"):
                                good |= e[1]
                ok = bool(good) and fl.cut_off([bi], good)
                chk.ob("fan-bucket-start-for-byte-zero", "%s fan[..-1]@%d" % (f.name.split("::")[-1], ln), ok,
                       "the fan-out table is read at `first byte - 1` on a path without a `!= 0` test (%s): for ids starting with 0x00 the bucket is taken as fan[0]..fan[0] instead of 0..fan[0]" % ("saturating/wrapping subtraction" if minus else "subtraction"),
                       "%s:%d" % (f.file, ln), key="fan-bucket|%s" % f.name)
    chk.floor("reads of fan-out tables examined", n, floor)
