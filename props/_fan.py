"""shared rule for the three fan-out bisections (pack index lookup, pack index prefix lookup, commit-graph lookup):
the range searched for first byte b is [fan[b-1], fan[b]) and starts at 0 for b == 0."""
from gx.flow import comparisons


def fan_bounds(chk, f, label):
    lp = f.loops()
    bodies = set()
    for l in lp:
        bodies |= set(l["body"])
    cands = [cm for cm in comparisons(f) if cm["op"] == "Lt" and len(cm["a"].get("p", [])) == 1 and len(cm["b"].get("p", [])) == 1 and cm["block"] in bodies]
    chk.floor("%s: bisection loop comparison (lower < upper)" % label, len(cands), 1)
    if not cands:
        return
    cm = cands[0]

    def src(l):
        # follow plain copies backwards to the named local
        for _ in range(4):
            ds = [(bi, rv) for bi, si, pl, rv, ln, mc in f.assigns() if pl == [l]]
            if len(ds) == 1 and ds[0][1][0] == "use" and "p" in ds[0][1][1] and len(ds[0][1][1]["p"]) == 1:
                l = ds[0][1][1]["p"][0]
            else:
                break
        return l
    lower = src(cm["a"]["p"][0])
    init = [(bi, rv, ln) for bi, si, pl, rv, ln, mc in f.assigns() if pl == [lower] and bi not in bodies]
    calls = [c for c in f.calls() if c.dest and c.dest[0] == lower and len(c.dest) == 1 and c.block not in bodies]
    zero = any(rv[0] == "use" and "p" not in rv[1] and rv[1].get("v") == 0 for bi, rv, ln in init) or \
        any("p" not in a and a.get("v") == 0 for c in calls for a in c.args)
    fanread = any(rv[0] == "use" and "p" in rv[1] and any(isinstance(x, str) and x.startswith("[") for x in rv[1]["p"][1:]) for bi, rv, ln in init) or bool(calls)
    chk.ob("fan-lower-bound", label, zero and fanread,
           "the lower bound of the bisection is initialised from %d site(s) and none of them is the constant 0: ids whose first byte is 0x00 start at position 0, not at fan[0]" % (len(init) + len(calls)),
           "%s:%d" % (f.file, cm["line"]), key="fan-lower-bound|%s" % f.name)
