"""shared by C24/C25: which on-disk u32 slot feeds which field (reader) / which field is written to which slot (writer)"""
from gx.flow import Flow

SPEC = ["ctime.secs", "ctime.nsecs", "mtime.secs", "mtime.nsecs", "dev", "ino", "mode", "uid", "gid", "size"]


def ordered_calls(fn, pat):
    cs = fn.calls_to(pat)
    cs.sort(key=lambda c: sum(1 for d in cs if fn.dominates(d.block, c.block)))
    return cs


def reader_sequence(fn, read_pat=r"gix_index::util::read_u32$"):
    """[(slot index, field path)] : for every Stat/Time/Entry aggregate field fed by exactly one read_u32 call"""
    fl = Flow(fn)
    reads = ordered_calls(fn, read_pat)
    idx = {c.block: i for i, c in enumerate(reads)}
    times = {}   # local -> {secs: slot, nsecs: slot}
    out = {}

    def slot(op):
        s = {r[2] for r in fl.roots(op, stop_named=False, sites=True, stop_calls=read_pat) if r[0] == "call" and r[2] in idx}
        return idx[next(iter(s))] if len(s) == 1 else None

    for bi, si, pl, rv, ln, mc in fn.assigns():
        if rv[0] == "agg" and rv[1] == "adt" and rv[2].endswith("entry::stat::Time"):
            times[pl[0]] = {n: slot(o) for n, o in zip(rv[5], rv[4])}
    for bi, si, pl, rv, ln, mc in fn.assigns():
        if rv[0] == "agg" and rv[1] == "adt" and rv[2].endswith("gix_index::entry::Stat"):
            for n, o in zip(rv[5], rv[4]):
                if n in ("mtime", "ctime"):
                    # follow moves back to the Time aggregate
                    l = o["p"][0] if "p" in o else None
                    seen = set()
                    while l is not None and l not in times and l not in seen:
                        seen.add(l)
                        nxt = None
                        for (b2, s2, k2, p2) in fl.defs.get(l, []):
                            if k2 == "a" and p2[1][0] == "use" and "p" in p2[1][1]:
                                nxt = p2[1][1]["p"][0]
                        l = nxt
                    for sub, sl in (times.get(l) or {}).items():
                        out["%s.%s" % (n, sub)] = sl
                else:
                    out[n] = slot(o)
        if rv[0] == "agg" and rv[1] == "adt" and rv[2].endswith("gix_index::Entry") and "mode" in rv[5]:
            o = rv[4][rv[5].index("mode")]
            out["mode"] = slot(o)
    seq = sorted(((v, k) for k, v in out.items() if v is not None))
    missing = [k for k, v in out.items() if v is None]
    return seq, missing, len(reads)


def writer_sequence(fn):
    """ordered field paths written as `x.to_be_bytes()` through write_all"""
    fl = Flow(fn)
    ws = ordered_calls(fn, r"io::Write::write_all$")
    seq = []
    for c in ws:
        if not fl.derives_from_call(c.args[1], r"::to_be_bytes$"):
            seq.append(None)
            continue
        r = fl.roots(c.args[1], stop_named=False)
        paths = set()
        for x in r:
            if x[0] == "arg" and x[1] == 1:
                pr = [p[1:] for p in x[2] if p.startswith(".")]
                if pr and pr[0] == "stat":
                    pr = pr[1:]
                if pr:
                    paths.add(".".join(pr))
        if fl.derives_from_call(c.args[1], r"entry::mode::Mode::bits$|Mode::bits$"):
            paths = {"mode"}
        seq.append(next(iter(paths)) if len(paths) == 1 else None)
    return seq
