"""shared by C47/C54: test-and-set gating of work-queue insertions / descents"""
import re
from gx.flow import Flow


def recv_fields(fl, op):
    out = set()
    for r in fl.roots(op):
        if r[0] == "arg" and r[2]:
            out.add(r[2][-1])
        if r[0] == "var" and r[3]:
            out.add(r[3][-1])
    for r in fl.roots(op, stop_named=False):
        if r[0] == "arg" and r[2]:
            out.add(r[2][-1])
    return out


def innermost_header(fn, block):
    hs = [l for l in fn.loops() if block in l["body"]]
    return min(hs, key=lambda l: len(l["body"]))["header"] if hs else None


def gated_by_insert(fn, fl, sink, id_ops, gates):
    """sink call is gated if some gate G (HashSet::insert) on a shared id binding dominates it and the sink is
    unreachable from G's `already present` edge within the same iteration"""
    ids = set()
    for o in id_ops:
        ids |= fl.root_vars(o)
    for g in gates:
        if not fn.dominates(g.block, sink.block) or g.block == sink.block:
            continue
        if not (fl.root_vars(g.args[1]) & ids):
            continue
        e = fl.result_edges(g)
        if not e["good"] or not e["bad"]:
            continue
        H = innermost_header(fn, g.block)
        avoid = {g.block} | ({H} if H is not None else set())
        r = set()
        for (_, t) in e["bad"]:
            r |= fn.reach_from(t, avoid=avoid)
        if sink.block not in r:
            return g
    return None
