#!/bin/sh
# Builds the gxmir driver and warms the facts cache for /repo's current tree. Offline.
set -e
cd "$(dirname "$0")"
export CARGO_NET_OFFLINE=true
(cd driver && cargo build --release --offline)
python3 gx/build.py ws
