#!/usr/bin/env python3
"""dump the slice-access obligations of the C06 parser scope that the LIN prover does not discharge: /tmp/bnd_sites_<k>.json (chunks for review)"""
import sys, json, collections
sys.path.insert(0, "/verif")
from gx import facts, bnd
from props import _c06_scope
db = facts.load("ws")
rows = []
for f in _c06_scope.functions(db):
    pr = bnd.Prover(f)
    obs = list(bnd.obligations(f, pr.ev))
    pr.all_obligations = obs
    for o in obs:
        if o["forms"] is not None and all(pr.prove(e, o["block"]) for e in o["forms"]):
            continue
        rows.append({"function": f.name, "file": f.file, "line": o["line"], "kind": o["kind"], "obligation": o["what"][:200]})
rows.sort(key=lambda r: (r["file"], r["line"]))
n = int(sys.argv[1]) if len(sys.argv) > 1 else 8
per = (len(rows) + n - 1) // n
for k in range(n):
    json.dump(rows[k * per:(k + 1) * per], open("/tmp/bnd_sites_%d.json" % k, "w"), indent=1)
print(len(rows), "sites in", n, "chunks of", per)
