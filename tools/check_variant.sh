#!/bin/sh
# developer tool (not a registered command). The scratch worktree is created on demand and removed by hand when done:
[ -d /tmp/wt/ST ] || { mkdir -p /tmp/wt && git -C /repo worktree add -q --detach /tmp/wt/ST HEAD; }
# usage: check_variant.sh <check ids...> : runs checks against the scratch worktree /tmp/wt/ST (never /repo), with its own facts cache and evidence dir
export GX_REPO=/tmp/wt/ST GX_CACHE=/tmp/wt/ST-cache GX_EVIDENCE_DIR=/tmp/wt/ST-evidence
cd /verif
for id in "$@"; do ./check $id 2>&1 | grep -v "^KNOWN-FINDING" | cut -c1-300 | head -8; done
