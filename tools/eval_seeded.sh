#!/bin/sh
# usage: eval_seeded.sh <seeded-dir-name> <check ids...> : applies the seeded patch to /repo, runs the checks, reverts
D=/verif/seeded/$1; shift
cd /repo && git apply $D/patch.diff || { echo "patch does not apply to /repo"; exit 2; }
cd /verif
for id in "$@"; do ./check $id 2>&1 | grep -v "^KNOWN-FINDING" | cut -c1-260 | head -6; done
git -C /repo checkout -- . ; git -C /repo status --short | head -3
