#!/bin/sh
[ -d /tmp/wt/ST ] || { mkdir -p /tmp/wt && git -C /repo worktree add -q --detach /tmp/wt/ST HEAD; }
# usage: eval_variant.sh <seeded-dir-name> <check ids...> : applies the seeded patch to the scratch worktree /tmp/wt/ST (synced to /repo HEAD), runs the checks there, reverts
D=/verif/seeded/$1; shift
cd /tmp/wt/ST && git checkout -q -- . && git reset -q --hard $(git -C /repo rev-parse HEAD) && git apply $D/patch.diff || { echo "patch does not apply"; exit 2; }
/verif/tools/check_variant.sh "$@"
cd /tmp/wt/ST && git checkout -q -- .
