#!/bin/sh
# usage: import_seeded.sh <ID> <n> <crate test spec...>   — verifies a sub-agent's seeded change in ITS scratch worktree and stores it
set -u
ID=$1; N=$2; shift 2
WT=/tmp/wt/${TAG:-$ID}; OUT=/tmp/wt/${TAG:-$ID}-out; DST=/verif/seeded/$ID-$N
export CARGO_TARGET_DIR=/tmp/wt/${TAG:-$ID}-target CARGO_NET_OFFLINE=true
mkdir -p $DST
cd $WT || exit 2
git checkout -q -- . ; git apply $OUT/patch.diff || { echo "patch does not apply"; exit 2; }
echo "== tests with change: $*"
if [ $# -gt 0 ]; then cargo nextest run "$@" --offline 2>&1 | tail -2; fi
echo "== demo WITH change"
( cd $OUT/demo && bash ./run.sh > /tmp/wt/$ID-demo-with.log 2>&1 ); W=$?; tail -3 /tmp/wt/$ID-demo-with.log; echo "exit=$W"
git apply -R $OUT/patch.diff
echo "== demo WITHOUT change"
( cd $OUT/demo && bash ./run.sh > /tmp/wt/$ID-demo-without.log 2>&1 ); WO=$?; tail -3 /tmp/wt/$ID-demo-without.log; echo "exit=$WO"
git apply $OUT/patch.diff
cp $OUT/patch.diff $DST/patch.diff; rm -rf $DST/demo; cp -r $OUT/demo $DST/demo; rm -rf $DST/demo/target; cp $OUT/notes.md $DST/notes.md 2>/dev/null
echo "$W $WO" > $DST/.confirm
