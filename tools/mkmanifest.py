#!/usr/bin/env python3
"""Regenerates MANIFEST.json from props/*.py metadata and rules/not_applicable.json."""
import importlib, json, os, sys, glob
HERE = os.path.dirname(os.path.dirname(os.path.abspath(__file__)))
sys.path.insert(0, HERE)
props = [json.loads(l) for l in open(os.path.join(HERE, "properties.jsonl"))]
ids = [p["id"] for p in props]
na = json.load(open(os.path.join(HERE, "rules", "not_applicable.json")))
checks = []
claimed = []
for pid in ids:
    if not os.path.exists(os.path.join(HERE, "props", pid + ".py")):
        continue
    m = importlib.import_module("props." + pid)
    claimed.append(pid)
    checks.append({
        "property_id": pid,
        "quick_cmd": "./check %s --tier quick" % pid,
        "thorough_cmd": "./check %s --tier thorough" % pid,
        "evidence_file": "evidence/%s.json" % pid,
        "replay_cmd_template": "./check %s --replay {path}" % pid,
        "engine": "gxmir",
        "level_claimed": {
            "category": "other",
            "text": "Static analysis of the type-checked program (MIR facts) of the current /repo tree: " + m.EXPLANATION,
            "design_ref": "DESIGN.md section 3, " + pid,
        },
        "level_note": getattr(m, "LEVEL_NOTE", "Decides the named structural clause(s), which are necessary conditions of the property, not the behaviour itself. Trusted: rustc front end/MIR construction, cargo feature resolution, and the std/external-crate summaries named in the rule."),
        "technique": m.TECHNIQUE,
    })
nal = []
for pid in ids:
    if pid in claimed:
        continue
    nal.append({"property_id": pid, "reason": na.get(pid, "check not built yet; see DESIGN.md")})
man = {
    "version": 1,
    "setup_cmd": "./setup.sh",
    "hooks": {
        "guard": "byron_gitoxide_verif",
        "enable": "none needed: static analysis reads /repo's sources through a rustc driver; no instrumentation is compiled into gitoxide",
        "baseline_off_cmd": "cd /repo && cargo nextest run --workspace --no-fail-fast --test-threads 8 --offline || cargo test --workspace --no-fail-fast --offline",
        "source_commits": [],
        "add_only": True,
    },
    "engines": [
        {"name": "gxmir", "path": "driver/", "serves_properties": claimed, "kind_free_text": "rustc_private driver (RUSTC_WORKSPACE_WRAPPER under cargo +nightly check) dumping MIR facts; rules in gx/ and props/ (python): call graph, dominators/cut-sets, dataflow, tables"},
    ],
    "checks": checks,
    "not_applicable": nal,
    "notes": "All checks are static: they rebuild MIR facts from /repo's working tree when any source/manifest changed (hash-stamped cache under .cache/), then evaluate rules. known_findings.json lists recorded genuine defects and fixed: entries.",
}
json.dump(man, open(os.path.join(HERE, "MANIFEST.json"), "w"), indent=1)
print("claimed", len(claimed), "n/a", len(nal))
