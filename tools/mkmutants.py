#!/usr/bin/env python3
"""Creates selftest/<pid>/<name>.diff + .json from textual replacements, using a scratch worktree (/tmp/wt/ST)."""
import json, os, subprocess, sys
WT = "/tmp/wt/ST"
VERIF = os.path.dirname(os.path.dirname(os.path.abspath(__file__)))

def make(pid, name, expect, edits, what):
    subprocess.run(["git", "-C", WT, "checkout", "-q", "--", "."], check=True)
    for path, old, new in edits:
        p = os.path.join(WT, path)
        s = open(p).read()
        assert s.count(old) == 1, (pid, name, path, s.count(old))
        open(p, "w").write(s.replace(old, new))
    d = subprocess.run(["git", "-C", WT, "diff"], stdout=subprocess.PIPE, check=True).stdout.decode()
    os.makedirs(os.path.join(VERIF, "selftest", pid), exist_ok=True)
    open(os.path.join(VERIF, "selftest", pid, name + ".diff"), "w").write(d)
    json.dump({"property": pid, "name": "selftest/%s/%s" % (pid, name), "patch": name + ".diff", "expect": expect, "what": what},
              open(os.path.join(VERIF, "selftest", pid, name + ".json"), "w"), indent=1)
    subprocess.run(["git", "-C", WT, "checkout", "-q", "--", "."], check=True)
    print("made", pid, name)

if __name__ == "__main__":
    spec = json.load(open(sys.argv[1]))
    for m in spec:
        make(m["pid"], m["name"], m["expect"], [tuple(e) for e in m["edits"]], m["what"])
