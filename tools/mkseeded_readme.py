#!/usr/bin/env python3
"""regenerates seeded/README.md from seeded/*/meta.json"""
import glob, json, os
V = os.path.dirname(os.path.dirname(os.path.abspath(__file__)))
rows = []
for m in sorted(glob.glob(os.path.join(V, "seeded", "*", "meta.json"))):
    d = json.load(open(m))
    name = os.path.basename(os.path.dirname(m))
    det = ", ".join(d.get("detected_by") or []) or "**missed**"
    rows.append("| %s | %s | %s | %s | %s |" % (name, d["property"], det, d.get("needs_to_manifest", "").replace("|", "\\|"), d.get("note", "").replace("|", "\\|")))
out = ["# Seeded changes", "",
       "Each directory holds an independently authored change (`patch.diff`) that breaks the named property while compiling and passing the existing tests,",
       "its demonstration (`demo/`, exit 0 = property holds), the author's notes and `meta.json` (what it needs to manifest, what was run to confirm it, which checks report it).",
       "None of these is ever committed to /repo. To evaluate: `tools/eval_seeded.sh <dir> <check ids...>` (applies to /repo, runs, reverts).", "",
       "| seeded | property | reported by | needs to manifest | change / history of the check |", "|---|---|---|---|---|"] + rows
n = len(rows); miss = sum(1 for r in rows if "**missed**" in r)
out += ["", "%d seeded changes, %d reported, %d missed." % (n, n - miss, miss), ""]
open(os.path.join(V, "seeded", "README.md"), "w").write("\n".join(out))
print(n, "seeded;", miss, "missed")
