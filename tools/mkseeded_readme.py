#!/usr/bin/env python3
"""regenerates seeded/README.md from seeded/*/meta.json"""
import glob, json, os
V = os.path.dirname(os.path.dirname(os.path.abspath(__file__)))
rows = []
for m in sorted(glob.glob(os.path.join(V, "seeded", "*", "meta.json"))):
    d = json.load(open(m))
    name = os.path.basename(os.path.dirname(m))
    det = ", ".join(d.get("detected_by") or []) or "**missed**"
    note = d.get("note", "") + ((" RETIRED: " + d["retired"]) if d.get("retired") else "")
    rows.append("| %s | %s | %s | %s | %s |" % (name, d["property"], det, d.get("needs_to_manifest", "").replace("|", "\\|"), note.replace("|", "\\|")))
out = ["# Seeded changes", "",
       "Each directory holds an independently authored change (`patch.diff`) that breaks the named property while compiling and passing the existing tests,",
       "its demonstration (`demo/`, exit 0 = property holds), the author's notes and `meta.json` (what it needs to manifest, what was run to confirm it, which checks report it).",
       "None of these is ever committed to /repo. To evaluate: `tools/eval_seeded.sh <dir> <check ids...>` (applies to /repo, runs, reverts).", "",
       "| seeded | property | reported by | needs to manifest | change / history of the check |", "|---|---|---|---|---|"] + rows
# compact table for DESIGN.md
LEG = {"caught": "reported", "caught*": "reported; the run also exposed a rule that would have alarmed on a correct variant (fixed)", "brittle": "reported only through a floor / proxy that a correct variant would also trip (rule rebuilt)", "missed": "missed"}
drows = []
for m in sorted(glob.glob(os.path.join(V, "seeded", "*", "meta.json"))):
    d = json.load(open(m))
    name = os.path.basename(os.path.dirname(m))
    det = ", ".join(d.get("detected_by") or []) or "**missed**"
    drows.append("| %s | %s | %s |" % (name, LEG.get(d.get("first_run", ""), d.get("first_run", "")), det))
snippet = "\n".join(["| seeded | first run | now reported by |", "|---|---|---|"] + drows)
dp = os.path.join(V, "DESIGN.md")
ds = open(dp).read()
b, e = "<!-- SEEDED-TABLE-BEGIN -->", "<!-- SEEDED-TABLE-END -->"
if b in ds and e in ds:
    ds = ds[:ds.index(b) + len(b)] + "\n" + snippet + "\n" + ds[ds.index(e):]
    open(dp, "w").write(ds)
n = len(rows); miss = sum(1 for r in rows if "**missed**" in r)
out += ["", "%d seeded changes, %d reported, %d missed." % (n, n - miss, miss), ""]
open(os.path.join(V, "seeded", "README.md"), "w").write("\n".join(out))
print(n, "seeded;", miss, "missed")
