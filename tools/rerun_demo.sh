#!/bin/sh
[ -d /tmp/wt/ST ] || { mkdir -p /tmp/wt && git -C /repo worktree add -q --detach /tmp/wt/ST HEAD; }
# usage: rerun_demo.sh <seeded-dir-name> <original TAG> <patch file> : re-confirms a (rebased) seeded patch against the scratch worktree /tmp/wt/ST:
# the demo must fail with the patch and pass without it. The demo's path dependencies on /tmp/wt/<TAG> are redirected to /tmp/wt/ST.
D=/verif/seeded/$1; TAG=$2; PATCH=$3
rm -rf /tmp/wt/demo-tmp; cp -r $D/demo /tmp/wt/demo-tmp
grep -rl "/tmp/wt/$TAG" /tmp/wt/demo-tmp | xargs sed -i "s|/tmp/wt/$TAG-target|/tmp/wt/ST-target|g; s|/tmp/wt/$TAG-out|/tmp/wt/demo-tmp-out|g; s|/tmp/wt/$TAG|/tmp/wt/ST|g"
cd /tmp/wt/ST && git checkout -q -- . && git reset -q --hard $(git -C /repo rev-parse HEAD) && git apply $PATCH || { echo "patch does not apply"; exit 2; }
( cd /tmp/wt/demo-tmp && bash ./run.sh > /tmp/wt/demo-with.log 2>&1 ); W=$?
cd /tmp/wt/ST && git checkout -q -- .
( cd /tmp/wt/demo-tmp && bash ./run.sh > /tmp/wt/demo-without.log 2>&1 ); WO=$?
echo "with=$W without=$WO"; tail -2 /tmp/wt/demo-with.log; tail -2 /tmp/wt/demo-without.log
rm -rf /tmp/wt/demo-tmp
