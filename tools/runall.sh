#!/bin/sh
# runs every claimed check (quick tier) and prints one line per check
cd "$(dirname "$0")/.."
fail=0
for f in props/C*.py; do
  id=$(basename "$f" .py)
  out=$(./check "$id" --tier "${1:-quick}" 2>&1); rc=$?
  line=$(echo "$out" | grep -E "^$id \[" | head -1)
  nk=$(echo "$out" | grep -c "^KNOWN-FINDING")
  echo "rc=$rc known=$nk $line"
  [ $rc -ne 0 ] && { fail=1; echo "$out" | grep -v "^$id \[" | head -5; }
done
exit $fail
