#!/bin/sh
# usage: seed_prep.sh <ID>... : scratch worktree /tmp/wt/<ID> of /repo HEAD + property text + prompt file for a seeding sub-agent
mkdir -p /tmp/wt
for ID in "$@"; do
  git -C /repo worktree add -q --detach /tmp/wt/$ID HEAD || exit 2
  python3 - "$ID" <<'PY'
import json,sys
pid=sys.argv[1]
for l in open('/verif/properties.jsonl'):
    d=json.loads(l)
    if d['id']==pid:
        open('/tmp/wt/%s.prop.txt'%pid,'w').write("Property %s: %s\n\nStatement: %s\n\nQuantified over: %s\n\nWhy tests cannot settle it: %s\n\nAnchored in files: %s\n" % (pid,d['title'],d['statement'],d['quantifier']['text'],d['why_tests_cant'],", ".join(d['anchors']['files'])))
open('/tmp/wt/%s.prompt.txt'%pid,'w').write(open('/verif/tools/seed_prompt.tmpl').read().replace('@ID@',pid))
PY
done
