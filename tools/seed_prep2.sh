#!/bin/sh
# usage: seed_prep2.sh <ID> <n> "<hint>" : like seed_prep.sh but for a further round: worktree /tmp/wt/<ID>r<n>, with a hint steering away from earlier changes
ID=$1; N=$2; HINT=$3; TAG=${ID}r${N}
mkdir -p /tmp/wt
git -C /repo worktree add -q --detach /tmp/wt/$TAG HEAD || exit 2
python3 - "$ID" "$TAG" "$HINT" <<'PY'
import json,sys
pid,tag,hint=sys.argv[1:4]
for l in open('/verif/properties.jsonl'):
    d=json.loads(l)
    if d['id']==pid:
        open('/tmp/wt/%s.prop.txt'%tag,'w').write("Property %s: %s\n\nStatement: %s\n\nQuantified over: %s\n\nWhy tests cannot settle it: %s\n\nAnchored in files: %s\n" % (pid,d['title'],d['statement'],d['quantifier']['text'],d['why_tests_cant'],", ".join(d['anchors']['files'])))
t=open('/verif/tools/seed_prompt.tmpl').read().replace('@ID@',tag)
t+="\n\nIMPORTANT: a colleague has already studied a change in %s. Choose a DIFFERENT file or a clearly different mechanism of the property (the anchored files list several), so that the two studies do not overlap.\n" % hint
open('/tmp/wt/%s.prompt.txt'%tag,'w').write(t)
PY
