#!/opt/veriftools/pyvenv/bin/python3
import json, jsonschema, glob, sys
jsonschema.validate(json.load(open('/verif/MANIFEST.json')), json.load(open('/root/.vp/MANIFEST.schema.json')))
es = json.load(open('/root/.vp/EVIDENCE.schema.json'))
n = 0
for f in glob.glob('/verif/evidence/*.json'):
    jsonschema.validate(json.load(open(f)), es); n += 1
print('manifest ok; %d evidence files ok' % n)
